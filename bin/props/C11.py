"""C11 — configuration for bin/check and MANIFEST text."""
import os, sys
sys.path.insert(0, os.path.dirname(os.path.dirname(os.path.abspath(__file__))))
from wfcommon import COMMON_TRUST

PROP = {
    'modules': ['WfModel.Props.C11'],
    'streams': [
        {'name': 'wild', 'shards': {'quick': 4, 'thorough': 16}},
        {'name': 'rx', 'shards': {'quick': 4, 'thorough': 16}},
    ],
    'rule': 'stream wild: ALL literal bodies over {a,B,*,\\,?} up to length 5 (quick) / 7 (thorough), each as a quoted '
            'and as a raw literal, x `wildcard` / `strict wildcard`, parsed by the real parser under star limits '
            '0,1,2,3,4 and unlimited (parser_with_settings and wildcard_set_star_limit) - outcome and error kind '
            'compared with the model; every accepted filter executed on ALL values over {a,A,b,B,0xff} up to length '
            '4 (quick) / 5 (thorough) (one `wildm` line = one execution per value; counted as such) plus readable '
            'single-value lines; extra spellings (hashes, \\x / octal escapes, embedded quotes, non-ASCII). '
            'stream rx: ALL quoted-regex sources over {a,\\,",[,],-} up to length 6 (quick) / 8 (thorough) with and '
            'without closing quote and rest - pattern string from the AST JSON, end of literal (from AST / error '
            'position) and error class compared with the model scanner; generated regex-subset patterns in quoted '
            'and raw spelling x ~22 values (non-UTF-8, newline, case, empty) compared between spellings and with a '
            'harness-side backtracking reference matcher (model answers `skip` on these); a table of targeted '
            'semantics cases; compiled-size-limit cases. non-trivial = wildp lines where limits disagree, every '
            'execution line, scanner sources containing \\ [ or "; distinct by op line',
    'assumptions': [
        'wildcard::Wildcard::is_match implements its documented contract (whole-value match, * = any sequence); its backtracking loop is not modelled - compared exhaustively on the small alphabet only',
        'regex-automata (syntax, compilation, size accounting, search) is not modelled; regex matching is compared with a harness-side reference matcher on a generated subset and between quoted/raw spellings (no Lean theorem about regex matching: deriv_correct is not claimed)',
        'string-literal lexing (quoted escapes, raw strings) is modelled in the driver for the correspondence only; its laws belong to C06',
    ],
    'trusted_base': COMMON_TRUST + [
        'harness-side reference regex matcher (backtracking, subset) used as oracle for regex matching',
        'modelled, not verified: crates wildcard 0.3.0 (parser mirrored line by line; matcher by contract), regex-automata/regex-syntax, serde_json (pattern string in the AST JSON)',
    ],
}

TEXT = {
    'design_ref': 'DESIGN.md section 3, C11',
    'level': 'PARTIAL. Lean 4 theorems: wildcard parser = grammar (`*` metasymbol; only `\\*` and `\\\\` escapes; `?` literal; '
             'trailing `\\`, `\\?`, `\\a` errors) with render round-trip; reference matcher = split specification '
             '(whole value, `*` any byte sequence, literals equal up to ASCII folding iff not strict); strict/non-strict '
             'wiring on plain patterns; validation accepted <-> in grammar AND stars <= limit AND no adjacent stars, with the '
             'error order of the Rust code; quoted-regex scanner: scan(escape(p) ++ quote ++ rest) = (p, rest) for every '
             'expressible p, its converse (every successful scan consumed exactly escape(p) ++ quote), only `\\"` outside '
             'a class is un-escaped, quote inside a class does not terminate, missing quote/trailing backslash = error. '
             'NOT proved: regex-automata and the wildcard crate\'s matcher themselves (third party) - compared by exhaustive '
             'small-alphabet and generated-subset correspondence; no derivative-based regex matcher.',
    'note': 'Trusted: Lean kernel; axioms propext/Classical.choice/Quot.sound; extractor (builder flags, validation order, '
            'operator wiring, regex syntax flags, scanner arms); harness incl. its reference regex matcher. Residue: third-party '
            'matchers are sampled, regex size-limit arithmetic only checked for direction on known-large patterns.',
    'technique': 'Lean 4 proof over executable model + exhaustive small-alphabet differential correspondence with the real engine',
}
