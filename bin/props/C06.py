"""C06 — configuration for bin/check and MANIFEST text."""
import os, sys
sys.path.insert(0, os.path.dirname(os.path.dirname(os.path.abspath(__file__))))
from wfcommon import COMMON_TRUST

PROP = {'assumptions': ['i64::from_str_radix / u8::from_str_radix are modelled as total functions (optional sign, '
                 'non-empty digits of the radix, range check); the model of fixed_byte states the documented '
                 'language (exactly N digits, no sign) - the unchanged engine accepts a leading + there '
                 '(finding F5), which the correspondence run reports',
                 'std IpAddr::from_str and cidr::IpCidr::from_str are modelled third-party parsers (own total '
                 'functions readV4/readV6/parseCidr)',
                 'String::from_utf8 is modelled by a strict decoder proved to be the exact inverse of the '
                 'encoder (utf8_decode_exact)'],
 'modules': ['WfModel.Props.C06'],
 'rule': 'cases = one literal embedded in a real filter (comparison rhs, in-list item, index) followed by one of '
         'the possible next tokens, parsed by the real engine; the decoded value is read back from the AST '
         'JSON. Every i64 boundary and random values in each radix; all 256 byte values in each escape form '
         'and random byte strings in every form; raw bodies with quotes and runs of k-1 hashes; all prefix '
         'lengths for v4/v6 CIDRs and random ranges; indexes around 0, 2^31, 2^32; systematically corrupted '
         'variants of each form with the verdict taken from the model; non-trivial = the literal is not the '
         'shortest of its kind and is followed by a token; distinct by (literal text, following token)',
 # TODO switch to the dedicated 'lit' stream when it lands; 'exec-scalar' already sends int / bytes / ip
 # literals of every form through the real parser.
 'streams': [{'name': 'lit', 'shards': {'quick': 4, 'thorough': 16}}],
 'trusted_base': COMMON_TRUST + [
                  'renderers (renderDec/Hex/Oct, renderQuoted, hashes, renderPair, dotted) are the '
                  'specification of "written in form X"; they are short structural definitions in '
                  'Lemmas/C06*.lean and are mirrored by the generators of the Rust stream',
                  'modelled, not verified: i64/u8::from_str_radix, std IpAddr::from_str, '
                  'cidr::IpCidr::from_str, String::from_utf8, char::to_digit']}

TEXT = {'design_ref': 'DESIGN.md section 3, C06',
 'level': 'Lean 4 theorems, for ALL values and all continuations meeting an explicit first-character side '
          'condition: int_roundtrip_dec/hex/oct (every i64; the digit renderer is a well-founded positional '
          'expansion, core lemma parseDigits radix (digits radix n) = some n), int_overflow(+hex/oct), '
          'intRange_roundtrip / intRange_reversed_rejected / intRange_single with each bound in any radix; '
          'quoted_roundtrip for every byte string and every per-byte choice among \\xHH (either letter case), '
          '\\OOO, literal printable ASCII, \\" and \\\\; bad_escape_rejected (\\x without exactly two hex digits '
          'incl. signs, \\O without three octal digits 000-377, unknown escape), unterminated_rejected; '
          'raw_roundtrip for every 0<=k<=255 and every body with no quote followed by >=k hashes, '
          'raw_hash_limit, raw_unterminated_rejected; hexpairs_roundtrip (>=2 pairs, any separators and letter '
          'case), hexpairs_single_rejected, hexpair_sign_rejected; index_roundtrip (every u32), '
          'index_neg_or_big_rejected, key_roundtrip (every string, every escape choice of its UTF-8 bytes), '
          'key_non_utf8_rejected, utf8_decode_exact (decoder = exact inverse of encoder, all four lengths, '
          'surrogates and overlongs rejected); ip_roundtrip_v4/v6 + ip_lex_roundtrip (dotted quad; eight full hex groups), '
          'cidr_hostbits (any accepted address spelling), cidr_roundtrip_v4/v6 (all prefix lengths: accepted iff '
          'len within width and host bits zero), iprange_family_order (mixed family / reversed rejected, for any '
          'accepted spellings) + iprange_rendered; brace_list_roundtrip (generic item loop) + int_list_roundtrip. '
          'ip_roundtrip_v6_display: the std Display text of every IPv6 address (:: compression, ::ffff:a.b.c.d, plain) '
          'is read back as that address. Not covered by round-trip theorems: non-canonical IPv6 spellings (leading '
          'zeros, upper case, other placements of ::), upper-case hex in integers, list names (handled elsewhere).',
 'note': 'Trusted: Lean kernel; axioms propext/Classical.choice/Quot.sound; harness. The model is tied to the '
         'code by the differential run only (no extracted tables for this property). Modelled not verified: '
         'from_str_radix, std/cidr address parsers, from_utf8. Known divergence: F5 (leading + accepted by '
         'fixed_byte in the unchanged engine).',
 'technique': 'Lean 4 proof over executable model + differential correspondence with the real engine'}
