"""C12 — configuration for bin/check and MANIFEST text."""
import os, sys
sys.path.insert(0, os.path.dirname(os.path.dirname(os.path.abspath(__file__))))
from wfcommon import COMMON_TRUST

PROP = {'assumptions': ['the AST handed to the visitors is the one the parser produced (parser = Model/Parse.lean, '
                 'tied by the exec-* and uses streams); field identity = index in the scheme '
                 '(`Field` compares scheme + index)',
                 'Scheme::get_field(name) = Scheme::get(name) restricted to fields (functions are not fields)'],
 'modules': ['WfModel.Props.C12'],
 'rule': 'cases = (filter or value expression, queried name) pairs: generated programs of C01-C03/C17 for '
         'which the generator records, per scheme field, whether it wrote the field (once, several times, '
         'only deep inside nested calls, only in / only outside `in $list` comparisons, never), queried '
         'with every field of the scheme, with function names and with unknown names; the answers of '
         'FilterAst::uses / uses_list (and the FilterValueAst equivalents) are compared with the model '
         'and with the generator ground truth; non-trivial = the filter has >=2 distinct fields and a '
         'function call or quantifier; distinct by (filter, name)',
 'streams': [{'name': 'uses', 'shards': {'quick': 4, 'thorough': 16}}],
 'trusted_base': COMMON_TRUST + [
     'modelled, not verified: the `walk` forwarding of each node kind is transcribed by hand into '
     'Model/Visitor.lean (tied by the differential stream, which places the sole occurrence of a field in '
     'every child position)']}

TEXT = {'design_ref': 'DESIGN.md section 3, C12',
 'level': 'Lean 4 theorems (uses_flag, uses_iff_mem, usesList_iff, usesList_iff_exists, unknown_name_error, '
          'function_name_error, known_name_answer): by mutual structural induction over the whole AST '
          '(logical, comparison, index, call-argument and quantifier-argument nodes and their lists) the '
          'early-exit walk of UsesVisitor answers `flag or (field occurs anywhere)` for every incoming '
          'flag, and UsesListVisitor answers exactly `some comparison node at any depth has operator '
          '`in $list` and mentions the field in its left-hand side`; names that do not resolve to a field '
          '(unknown or function names) give an error for both queries. Tied to the code by the '
          'differential run through FilterAst::uses / uses_list.',
 'note': 'Trusted: Lean kernel; axioms propext/Classical.choice/Quot.sound; harness and generator ground '
         'truth. Modelled not verified: the per-node `walk` forwarding (transcribed from logical_expr.rs, '
         'field_expr.rs, index_expr.rs, function_expr.rs). Not proved here: identifiers of the parsed AST '
         '= identifier tokens of the source text (S-level `identifiers_of_parse`, needs the parser '
         'round-trip of C07); the stream checks it against the generator ground truth instead.',
 'technique': 'Lean 4 proof over executable model + differential correspondence with the real engine'}
