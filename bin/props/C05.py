"""C05 — configuration for bin/check and MANIFEST text."""
import os, sys
sys.path.insert(0, os.path.dirname(os.path.dirname(os.path.abspath(__file__))))
from wfcommon import COMMON_TRUST

PROP = {
    'assumptions': [
        'the model works on characters (List Char); Rust &str slicing at non-char-boundary byte '
        'offsets cannot be exhibited by it and is covered only by the correspondence run',
        'stack consumption per frame and allocation failure are outside the model; the model\'s own '
        'recursion is structural on the nesting budget and on loop fuel (C13: nesting <= limit)',
        'ParseErr.mk is the arithmetic of ParseError::new on units (bytes or chars) with a newline '
        'predicate; Display is modelled by its shape (line/column header, line, spaces, max(1, len) carets)',
        'third-party text parsers (regex validity) are modelled by total functions',
    ],
    'modules': ['WfModel.Props.C05'],
    'rule': 'cases = input strings fed to Scheme::parse / parse_value in a subprocess worker under a 2 MiB '
            'thread: random UTF-8, token soups over the language alphabet, mutated valid filters '
            '(insert/delete/duplicate/truncate next to multi-byte characters, escapes, raw-string '
            'delimiters, brace lists, index brackets), chains of 1e5 operands and 1e5-deep brackets / '
            'nots / calls; per case: no panic, no abort, termination, on Err the ParseError fields satisfy '
            'parseError_wf and to_string() does not panic; model Ok/Err compared on the soup and mutation '
            'streams; non-trivial = the input is rejected with a span strictly inside a multi-token input '
            'or is a mutation of an accepted filter; distinct by input',
    # `fuzz` is the dedicated stream (coordinator); `exec-scalar` keeps the check runnable meanwhile
    'streams': [{'name': 'fuzz', 'shards': {'quick': 4, 'thorough': 16}},
               ],
    'trusted_base': COMMON_TRUST + [
        'modelled, not verified: str::trim / char::is_whitespace (isRustWhitespace table), '
        'i64/u8::from_str_radix, std IpAddr::from_str, cidr::IpCidr::from_str, regex syntax validity',
        'the correspondence between character offsets (model) and byte offsets (Rust) is by the '
        'harness comparing ParseError fields, not by proof',
    ],
}

TEXT = {
    'design_ref': 'DESIGN.md section 3, C05',
    'level': 'PARTIAL (as claimed). Lean 4 theorems for every scheme, setting and input string: parse_total '
             '(by construction: all of Lex/Lit/Parse are total, termination kernel-checked), '
             'fuel_never_exhausted (the model-only outOfFuel error is unreachable from parseFilter / '
             'parseValue: every loop has enough fuel), rest_is_suffix_* (every lexer and, at every '
             'nesting budget, all four parser entry points return a strictly shorter suffix of their '
             'input or an error whose span lies inside it), error_span_in_input / error_span_in_source '
             '(every parse error designates a span of the trimmed, hence of the original, input), '
             'parseError_wf / parseError_no_underflow / parseError_reconstruct / display_has_caret '
             '(ParseError::new on any in-range span: the designated line is the lineNumber-th line of the '
             'input, the column range lies inside it, neither subtraction underflows, >= 1 caret), '
             'error_location_wf (every error the parser can produce passes the assert of ParseError::new '
             'and gets such a location).',
    'note': 'Not provable on this model and left to the correspondence run (subprocess worker): absence '
            'of stack overflow in bytes, char-boundary panics of &str slicing, allocation failure. '
            'climb_depth_le_3 is not stated separately; the precedence recursion of the model is bounded '
            'by its fuel (2*|rest|+3 suffices, proved inside fuel_never_exhausted).',
    'technique': 'Lean 4 proof over executable model + differential correspondence with the real engine',
}
