"""C07 — configuration for bin/check and MANIFEST text."""
import os, sys
sys.path.insert(0, os.path.dirname(os.path.dirname(os.path.abspath(__file__))))
from wfcommon import COMMON_TRUST

PROP = {'assumptions': ['json_injective side conditions: scheme field names pairwise distinct and function names pairwise '
                 'distinct (SchemeBuilder rejects duplicates), indices in range, IPv4 values < 2^32, and SameLitKinds '
                 '(literals at corresponding positions have the same kind int/ip/bytes; in the engine the kind is '
                 'fixed by the equal left-hand-side / parameter type and the JSON does not record it)',
                 'alias / layout theorems are about the lexer primitives (lex_enum! tables as modelled in '
                 'Model/Parse.lean, skip_space, the combining-operator lookahead) for every continuation of the '
                 'input; invariance of the AST / JSON / hash of a WHOLE filter under alias and layout changes of '
                 'its LOGICAL layer (and/or/xor/not spellings, spaces, parentheses kept) is proved at character '
                 'level (Props/C07Render.lean: parse_render_logical, alias_layout_invariance) over ABSTRACT atoms '
                 'assumed to satisfy GoodAtom (comparisonL reads exactly the atom text to its Bool node before '
                 'every continuation the atom stops at; proved for bare boolean fields of a concrete scheme); '
                 'aliases and layout INSIDE comparisons (==/eq, spaces around comparison operators) are covered '
                 'by the table lemmas and observed by the correspondence stream',
                 'the lex_enum! tables themselves are pinned to the source by the C01 extractor, not here; C07 '
                 'extracts SPACE_CHARS and the serializer op strings of field_expr.rs'],
 'modules': ['WfModel.Props.C07', 'WfModel.Props.C07Render'],
 'rule': 'cases = well-typed filters executed through the real parser and serializer; non-trivial = filter with >= 2 '
         'operator occurrences of which >= 1 uses a non-default alias or layout; distinct by (AST JSON, spelling '
         'vector)',
 # TODO switch to 'json' stream when it lands
 'streams': [{'name': 'json', 'shards': {'quick': 4, 'thorough': 16}}],
 'trusted_base': COMMON_TRUST + [
                  'modelled, not verified: serde_json compact writer and serde derive/untagged/flatten behaviour '
                  '(Model/Json.lean is a transcription of the Serialize impls; byte-for-byte agreement is checked by '
                  'the correspondence run), std Display for Ipv4Addr/Ipv6Addr and the cidr crate Display, '
                  'String::from_utf8 (strict UTF-8 decoder), FNV-1a as used by wirefilter_get_filter_hash',
                  'bin/extract_c07.py (SPACE_CHARS; (variant, "op" literal) of every serialize_with function of '
                  'ComparisonOpExpr; field names of its struct-like variants; derive list of lex_enum!)']}

TEXT = {'design_ref': 'DESIGN.md section 3, C07',
 'level': 'Lean 4 theorems over the executable model. Aliases: alias_sound / alias_complete / alias_first_match for ANY '
          'lex_enum! table (the lexer returns the first entry in table order whose spelling is a prefix of the input); '
          'alias_complete_{logical,unary,quant,ordering,comparison} on the five concrete tables for every continuation '
          'of the input - the only order hazard is ">"/"<" followed by "=", resolved to >=/<= by source order '
          '(ordering_gt_eq_is_ge); alias_same_variant_* for all twelve alias pairs of the property. Layout: '
          'skip_space_layout, skipSpace_idempotent, skipSpace_exact, lexCombiningOp_layout / _alias_layout (operator '
          'lookahead independent of spaces and spelling); space_chars_pinned against the extracted SPACE_CHARS. JSON: '
          'paren_transparent, flatten_visible (+ one item per operand), json_norm_invariant, json_injective (equal '
          'JSON documents => equal AST modulo parentheses, byte-literal format among forms that print alike, regex '
          'format, call context, list index; side conditions explicit: distinct scheme names, indices / addresses in '
          'range, same literal kinds at corresponding positions), v6Str_injective (the IPv6 Display text with :: '
          'compression / ::ffff:a.b.c.d is injective on 128-bit values, via parse-back), json_injective_on / _noV6, '
          'json_eq_iff_norm_eq (exact '
          'characterisation), op_name_injective, node_heads_distinct, hash_congr / hash_of_norm_eq, '
          'serializer_ops_pinned / cmp_op_document_shape against the extracted serializer strings. '
          'Character level (Props/C07Render.lean): parse_render_logical (S) - every rendering (any alias per '
          'operator occurrence, any layout; a space mandatory only between an atom and the next combining '
          'operator; the word `not` glued to its operand only where glueOk env holds, i.e. unless the glued text '
          'spells a registered name, which LogicalExpr::lex_unary_op reads as that identifier) of every logical skeleton over GoodAtom atoms is read by LogicalExpr::lex_with to the '
          'declarative meaning canon(sk); alias_layout_invariance(_level, same_outcome) - two renderings of the '
          'same skeleton give the same AST, JSON document, JSON text and FNV hash; parse_render_filter; '
          'precedence_whole_filter; concrete instance with three spellings of one filter.',
 'note': 'Trusted: Lean kernel; axioms propext/Classical.choice/Quot.sound; extractor; harness. Not proved: '
         'J.render injectivity (documents are compared as trees; text equality of equal trees is '
         'by construction); alias/layout invariance INSIDE atoms (comparison operators, literals) at '
         'character level (table lemmas + stream; the logical layer is proved in Props/C07Render.lean). '
         'ComparisonOpExpr::ContainsOneOf has a serializer but no parser path and no model constructor.',
 'technique': 'Lean 4 proof over executable model + differential correspondence with the real engine'}
