"""C10 — configuration for bin/check and MANIFEST text."""
import os, sys
sys.path.insert(0, os.path.dirname(os.path.dirname(os.path.abspath(__file__))))
from wfcommon import COMMON_TRUST

PROP = {
    'modules': ['WfModel.Props.C10'],
    'streams': [{'name': 'contains', 'shards': {'quick': 4, 'thorough': 16}}],
    'rule': 'cases = (needle, anchor, AVX2 on/off, haystack) executed through real compiled filters '
            '`b contains <literal>`: needle lengths 0..=20 (quick) / 0..=40 (thorough), 2-5 needles per length '
            'over 2-letter alphabets (ASCII, 00/ff, 7f/80), EVERY anchor 1..len-1 forced through the '
            'cfg-guarded hook and confirmed by the hook query, plus the engine\'s own random anchor and '
            'ignored out-of-range overrides; haystack lengths 0..=300 chosen around every vector-width '
            'switch of sliceslice (end = |h|-|p|+1 in 1..97, 128, 255/256, 299/300) with the needle absent, '
            'at 0, at the very end, straddling 16/32/64-byte and chunk/remainder boundaries, and near-misses '
            'differing in exactly the first / last / anchor byte, over constant, random and '
            'false-candidate fillers; the whole needle x haystack sweep is repeated in a child process with '
            'WIREFILTER_USE_AVX2=0; non-trivial = needle >= 2 bytes and haystack longer than the needle; '
            'distinct by the whole op line',
    'assumptions': [
        'memchr::memchr / memchr::memmem::Finder::find return the first occurrence (documented contract; modelled, sampled)',
        'sliceslice Avx2Searcher computes, for every candidate offset 0..end, first-byte AND anchor-byte equality then memcmp of the rest; its lane grouping, overlapping last chunk and mask are NOT modelled (sampled by the correspondence only) - this is why the claim is partial',
        'closure compilation is modelled as direct evaluation',
    ],
    'trusted_base': COMMON_TRUST + [
        'cfg-guarded hook wirefilter::verif_hooks (hooks/c10_anchor_override.patch): forces/reports the anchor; off by default, add-only',
        'modelled, not verified: crates sliceslice (x86 AVX2/SSE2 intrinsics, unsafe), memchr (memchr, memmem), rand (anchor choice), std LazyLock + is_x86_feature_detected (USE_AVX2 latch), literal lexing of the rendered needle',
    ],
}

TEXT = {
    'design_ref': 'DESIGN.md section 3, C10',
    'level': 'PARTIAL. Lean 4 theorems (naive_spec, empty_always, longer_needle_false, anchored_eq_spec, '
             'memchr_eq_spec, memmem_eq_spec, dispatch_never_panics, dispatch_total_and_correct, path_independent, '
             'bad_anchor_is_panic): for every needle, haystack, anchor position and USE_AVX2 value, the searcher '
             'selected by the modelled dispatch (empty / memchr / anchor-filtered candidate scan / memmem) answers '
             'exactly `exists i, h[i..i+|p|] = p`; hence the answer is independent of the AVX2 switch, of the anchor '
             'and of recompilation. The anchored scan is the scalar skeleton of sliceslice (first byte and anchor byte '
             'pre-filter, then comparison of the rest, |h|<=|p| shortcut). NOT proved: the vector-lane grouping, '
             'overlapping remainder chunk and masks inside sliceslice::x86 and the SIMD code of memchr/memmem (third-party '
             'unsafe code) - these are only sampled, by a hooked sweep over every anchor x boundary-straddling haystacks '
             'x AVX2 on/off against the real engine.',
    'note': 'Trusted: Lean kernel; axioms propext/Classical.choice/Quot.sound; extractor (dispatch shape: shortcut order, '
            'arms 2..=16, anchor range 1..len, NO_VALUES); harness; the cfg-guarded anchor hook. Modelled not verified: '
            'sliceslice, memchr, rand, LazyLock/CPU detection. Residue (why partial): SIMD internals are sampled, not proved.',
    'technique': 'Lean 4 proof over executable model + hooked differential correspondence with the real engine (every anchor, AVX2 on and off)',
}
