"""C02 — configuration for bin/check and MANIFEST text."""
import os, sys
sys.path.insert(0, os.path.dirname(os.path.dirname(os.path.abspath(__file__))))
from wfcommon import COMMON_TRUST

PROP = {
    "modules": ["WfModel.Props.C02"],
    "streams": [{"name": "exec-containers", "shards": {"quick": 4, "thorough": 16}}],
    "rule": "cases = (scheme, context, filter or value expression) triples run through the real "
            "parse -> compile -> execute: schemes with container fields nested to depth 3 (every "
            "array/map layer string over the four primitives), contexts with empty / singleton / "
            "ragged / absent containers, index paths mixing [n], [\"key\"] and [*] at any "
            "position (indexes at len-1, len, u32::MAX; present / absent / empty keys), every "
            "C01 operator on the element type, not/and/or/xor over boolean arrays of unequal "
            "length, any()/all() over comparisons and directly over boolean-array values; one "
            "in five cases is a value expression (FilterValue::execute). non-trivial = the same "
            "filter gives at least two different answers over the contexts it is run on and is "
            "not a parse error; distinct by (filter text, context)",
    "trusted_base": COMMON_TRUST + [
        "modelled, not verified: BTreeMap iteration order (the model keeps entries in strictly "
        "ascending key order, Val.wf; map_order proves what follows from that), Vec/slice "
        "indexing, the closure capture of compile (direct evaluation in the model)",
    ],
    "assumptions": [
        "values satisfy Val.wf (homogeneous containers, strictly ascending distinct map keys): "
        "what Array/Map constructors and BTreeMap maintain; the harness builds contexts with "
        "the engine's checked constructors",
        "paths satisfy PathOk for the identifier's type: proved to be what the parser's index "
        "loop enforces (parser_paths_ok); at CHARACTER level, for written suffixes [k] / [\"key\"] "
        "(no [*]) with layout inside the brackets: Props/C01Atoms.lean index_path_parses (a path "
        "well-typed for the field's declared type is read to exactly its indexes and final type) "
        "and index_path_illtyped_rejected (an ill-typed one fails with InvalidIndexAccess) - "
        "checked under C01, not part of C02's modules",
        "vec_logic / any_iff_exists / all_iff_forall are stated for operands that evaluate to "
        "boolean arrays (no Stuck outcome); absence of Stuck for well-typed filters is C04",
    ],
}

TEXT = {
    "design_ref": "DESIGN.md section 3, C02 and Appendix A.3",
    "technique": "Lean 4 proof over executable model + differential correspondence with the real engine",
    "level": "Lean 4 theorems: mapEach_rowMajor (the explicit stack machine modelling MapEachIterator, "
             "for any number of [*] at any positions and depth, returns exactly the recursive "
             "row-major reference pathSpec, never Stuck, and the model's fuel is sufficient; "
             "mapEach_fuel_irrelevant: any larger fuel gives the same answer), strategies_agree "
             "(compile_one_with / compile_vec_with / compile_iter_with are unobservable: the result "
             "is the comparison mapped over pathSpec), getNested_ref, missing_index / missing_key / "
             "missing_base / absent_container_empty, vec_logic (n-ary zip-truncate: length = min, "
             "i-th element = fold of op), vec_not, any_iff_exists, all_iff_forall, all_nil, "
             "quantifier_absent_false, map_order, parser_paths_ok. The model is a transcription of "
             "index_expr.rs / logical_expr.rs / types.rs get_nested and is tied to the code by the "
             "exec-containers differential stream.",
    "note": "Trusted: Lean kernel; axioms propext/Classical.choice/Quot.sound; extractor; harness. "
            "Modelled not verified: BTreeMap order, closure compilation. The stream currently also "
            "shows two defects of /repo unrelated to C02 (function-context accessor `ctxfn(...)`, "
            "`in $name` on the always-list); they are reported, not hidden.",
}
