"""C04 — configuration for bin/check and MANIFEST text."""
import os, sys
sys.path.insert(0, os.path.dirname(os.path.dirname(os.path.abspath(__file__))))
from wfcommon import COMMON_TRUST

PROP = {
    'assumptions': [
        'CtxOk: every mandatory field has a value, every stored value is well-formed (homogeneous '
        'containers, ascending map keys) and has the declared type of its field, a matcher exists for '
        'every registered list (C08 proves contexts built through the API keep this)',
        'FuncsOk: every registered simple function, on arguments admissible for its declared parameters '
        '(absent only for non-literal parameters), returns nothing or a well-formed value of its declared '
        'return type, and its default values are well-formed (user code; shown for the harness functions '
        'len/concat in an example); a logical-expression argument of static type Map(Bool) is passed as '
        'the Array(Bool) of its results (implementation quirk, mirrored)',
        'closure compilation is modelled as direct evaluation; third-party regex validity is outside '
        'the model (patterns outside the plain subset answer `undecided`)',
    ],
    'modules': ['WfModel.Props.C04'],
    'rule': 'cases = every cell of the four typing matrices rendered as filter text (left type x operator '
            'x literal kind, container type x index kind, operand type pair x logical operator, function '
            'signature x argument shape) plus random well- and ill-typed compositions to depth 4; accepted '
            'programs are executed on the C01/C02 contexts under catch_unwind; observable = Ok/Err of '
            'parse and the execution result; non-trivial = matrix cell or composition of depth >= 2; '
            'distinct by cell id / derivation hash',
    'streams': [{'name': 'typing', 'shards': {'quick': 4, 'thorough': 16}},
                {'name': 'exec-containers', 'shards': {'quick': 4, 'thorough': 16}}],
    'trusted_base': COMMON_TRUST + [
        'bin/extract_c04.py (regex-level extraction of the arms of `match (&lhs_type, op)` in '
        'ComparisonExpr::lex_with_lhs, pinned to Spec.allowed by cmpArms_exact/cmpArms_real)',
        'modelled, not verified: literal lexers (opaque to the typing proofs: only the kind of literal '
        'they return matters), the wildcard/regex crates, user-defined function bodies (FuncsOk)',
    ],
}

TEXT = {
    'design_ref': 'DESIGN.md section 3, C04; Appendix A.4',
    'level': 'Lean 4 theorems. Matrices: admissible_matrix (+ cmpWithLhs_decision, admissible_reject, '
             'admissible_accept), index_matrix, logical_matrix, quantifier_arg, and the extracted match '
             'arms cmpArms_exact/cmpArms_real. parse_sound: every entry point of every nesting level of '
             'the parser (logical, simple, quantifier argument, call body, with the argument loop, '
             'check_param and the precedence climber) only returns nodes derivable in the independently '
             'written declarative judgment WT/WTI/WTA/WTQ at the type it reports; hence '
             'parseFilter_sound and parseValue_sound. type_soundness / value_soundness: a well-typed '
             'node evaluates on every admissible context without reaching any cast_value!/unreachable!/'
             'unwrap/assert! site (nor the model fuel bound: mapEach_typed proves the iterator '
             'terminates), with a result of the static type; accepted_filter_executes and '
             'accepted_value_evaluates compose the two. The converse (WT-derivable canonical renderings '
             'are accepted) is covered by the differential stream, not proved.',
    'note': 'Findings made while proving (both confirmed on the real engine, both fixed): (A) any(x[*]) '
            'with x: Array(Array(Bool)) was accepted and panicked in reduce_lhs_array; (B) a map-each '
            'call on an empty array kept the argument element type, so concat(len(a[*]), ints) panicked '
            'in Array::try_from_vec. The theorems are stated for the repaired model. Remaining quirk, '
            'mirrored: IsTrue on Map(Bool) is typed Map(Bool) but evaluates to a boolean vector.',
    'technique': 'Lean 4 proof over executable model + differential correspondence with the real engine',
}
