"""C17 — temporary config (theorem module being written)."""
import os, sys
sys.path.insert(0, os.path.dirname(os.path.dirname(os.path.abspath(__file__))))
from wfcommon import COMMON_TRUST

PROP = {
    "modules": ["WfModel.Props.C09"],
    "streams": [{"name": "exec-lists", "shards": {"quick": 4, "thorough": 16}}],
    "rule": "tmp",
    "trusted_base": COMMON_TRUST,
    "assumptions": [],
}
TEXT = {"level": "tmp", "design_ref": "DESIGN.md section 3, C17", "note": "tmp", "technique": "tmp"}
