"""C17 — configuration for bin/check and MANIFEST text."""
import os, sys
sys.path.insert(0, os.path.dirname(os.path.dirname(os.path.abspath(__file__))))
from wfcommon import COMMON_TRUST

PROP = {'assumptions': ['the harness list matcher (named sets of rendered values, recording every query) is modelled by '
                 'ListState/.sets; matchers of a context are created from the scheme\'s list definitions in '
                 'registration order (CtxFor)',
                 'SchemeBuilder::add_list rejects a second list for the same type (ListsDistinct) - used only '
                 'by routing_any_order',
                 'ExecutionContext::clear is modelled in Lemmas/C17.lean (Ctx.clear: values unset, every '
                 'matcher\'s clear() called); serialization round trip of matcher state is decided with C14',
                 'closure compilation is modelled as direct evaluation'],
 'modules': ['WfModel.Props.C17'],
 'rule': 'cases = (scheme with lists registered in a generated order, context with generated matcher state, '
         'filter containing `in $name`) executed through the real engine, answer + recorded (name, value) '
         'queries compared with the model; list names over the permitted alphabet and invalid ones; '
         'left-hand sides: fields, index paths, map-each paths, function calls; built-in always/never lists '
         'on Int, Ip, Bytes; non-trivial = the filter reaches a matcher with a non-empty set or a built-in '
         'list and the scheme has >=2 lists; distinct by (scheme, context, filter)',
 'streams': [{'name': 'exec-lists', 'shards': {'quick': 4, 'thorough': 16}}],
 'trusted_base': COMMON_TRUST + [
     'bin/extract_c17.py (regex over list_matcher.rs: literal returned by AlwaysListMatcher / '
     'NeverListMatcher::match_value)',
     'modelled, not verified: HashMap lookups of Scheme::get_list (first registration index of the type), '
     'get_list_matcher_unchecked (index into the context\'s matcher vector), the harness matcher']}

TEXT = {'design_ref': 'DESIGN.md section 3, C17',
 'level': 'Lean 4 theorems: inlist_delegates (lhs without [*]: false when the lhs has no value, otherwise '
          'exactly listMatch c l name v on the value of the lhs, for fields, index paths and calls), '
          'inlist_delegates_each / inlist_each_answers / inlist_each_elements / compareWith_inlist_each (under [*]: the array of '
          'matcher answers on the selected elements in order, empty when absent), matcher_answer, routing '
          '(an InList node is produced only by `in $name` with l = get_list(lhs type)), getList_index / '
          'routing_any_order / routing_exec (registration order vs lookup by type), parse_inlist / '
          'unregistered_rejected / badname_rejected / other_type_rejected, listname_alphabet (both '
          'directions, maximal munch) + listname_chars, always_true / never_false pinned to the literals '
          'extracted from list_matcher.rs (builtin_answers_pinned), clear_empties_matchers / '
          'clear_keeps_builtins / clear_unsets_values. Tied to the code by the differential exec-lists '
          'stream through real filters and by the extracted literals.',
 'note': 'Trusted: Lean kernel; axioms propext/Classical.choice/Quot.sound; extractor; harness. Modelled not '
         'verified: hash-map lookup of get_list, the harness matcher, ExecutionContext::clear (model defined '
         'next to the theorem). Not covered here: matcher state surviving a serde round trip (with C14).',
 'technique': 'Lean 4 proof over executable model + differential correspondence with the real engine'}
