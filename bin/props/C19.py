"""C19 — configuration for bin/check and MANIFEST text."""
import os, sys
sys.path.insert(0, os.path.dirname(os.path.dirname(os.path.abspath(__file__))))
from wfcommon import COMMON_TRUST

PROP = {
    'assumptions': [
        'std::panic::catch_unwind catches every unwinding panic of the closure; the panic hook runs on the '
        'panicking thread before unwinding starts; thread_local! values are per thread and start at their '
        'initialisers; std::panic::take_hook/set_hook replace the process hook (modelled, not verified)',
        'a panic message is identified by a unique marker text; "error text contains the message" is read off '
        'the marker found in the returned text',
        'in-process histories start with the catcher hook already installed (the hook is process-global and '
        'installed once per harness process, after a sentinel hook); histories that need a pristine process or '
        'fallback mode Abort run in child processes of the harness binary',
        'the nesting level is not read directly (no /repo hook): balance is inferred from a probe panic at the '
        'outermost level appended to every in-process history (it reaches the sentinel iff the level is 0; an '
        'underflow would abort in stop_catching)',
    ],
    'modules': ['WfModel.Props.C19'],
    'rule': 'cases = histories executed on a fresh real thread each: every sequence up to length 5 (quick) / 7 '
            '(thorough) over {enable, disable, enter catch_panic, return from it, panic with a unique message, '
            'install hook again, set fallback Continue, query backtrace} plus, with catching enabled first, every sequence of that '
            'length over the six steps that matter once the hook is installed, each followed by a probe panic outside catch_panic; every sequence up '
            'to length 3/4 over that alphabet plus "set fallback Abort" in a pristine child process (hook not '
            'installed at start; process abort observed through the exit signal) and random longer ones; random '
            'two-thread histories (up to 3 steps per thread, complete random interleavings at step granularity, '
            'driven through channels). non-trivial = some catch_panic body (at any depth) contains a panic; '
            'two-thread cases additionally need >= 2 context switches; distinct by canonical token string (+ '
            'schedule)',
    'streams': [{'name': 'pcop', 'shards': {'quick': 4, 'thorough': 16}}],
    'trusted_base': COMMON_TRUST + [
        'modelled, not verified: std catch_unwind / panic hook chain / thread-locals / process::abort; the '
        'backtrace crate (only "the recorded text contains the payload" is used)',
    ],
}

TEXT = {
    'design_ref': 'DESIGN.md section 3, C19',
    'level': 'Lean 4 theorems over an op-tree model of engine/src/panic.rs (thread-locals enabled/level/'
             'last message/fallback, process-wide hook chain and flag; big-step and small-step semantics): '
             'catch_result (hook installed and enabled => Ok(value) or Err(text containing exactly the message '
             'of the panic that left the body), any level, any body), catch_transparent, level_balanced (every '
             'path, incl. panicking ones), outside_panic_reaches_previous_hook (after any history), '
             'thread_noninterference (N threads, every non-aborting schedule at step granularity), and the F7 '
             'note setHook_not_atomic_loses_previous. Tied to the code by executing every short history for '
             'real on fresh threads / in fresh processes and comparing every catch_panic return value, '
             'sentinel-hook observation, backtrace query and abort with the model.',
    'note': 'Trusted: Lean kernel; axioms propext/Classical.choice/Quot.sound; harness. Modelled not verified: '
            'std panic machinery and thread-locals. The nesting level is inferred from a probe panic, not read. '
            'F7 (set_hook check-then-act race) is outside the stated step granularity: proved on the model as a '
            'note, not replayed on real threads.',
    'technique': 'Lean 4 proof over executable model + differential correspondence with the real engine',
}
