"""C09 — configuration for bin/check and MANIFEST text."""
import os, sys
sys.path.insert(0, os.path.dirname(os.path.dirname(os.path.abspath(__file__))))
from wfcommon import COMMON_TRUST

PROP = {'assumptions': ['std::binary_search_by returns Ok iff some element compares Equal on a slice partitioned '
                 'Less*/Equal*/Greater* (proved for the merged list)',
                 'closure compilation is modelled as direct evaluation'],
 'modules': ['WfModel.Props.C09'],
 'rule': 'cases = (brace list, probe) pairs executed through real `field in {...}` filters: every list of '
         '<=3 (quick) / <=4 (thorough) ranges over a 7-point integer domain x 9 probes, every list of '
         '<=2/<=3 items (explicit ranges and CIDRs) over an 8-address IPv4 and IPv6 block x 10 probes, '
         'random lists of <=40 items clustered around each other and the type extremes, byte-string sets; '
         'non-trivial = list has >=2 items of which two overlap, touch or nest (bytes: >=2 items); distinct '
         'by (list, probe)',
 'streams': [{'name': 'inset', 'shards': {'quick': 4, 'thorough': 16}}],
 'trusted_base': ['Lean 4.33.0 kernel (thorough tier re-checks the compiled module with leanchecker)',
                  'axioms: propext, Classical.choice, Quot.sound only (audited per theorem on every run); no '
                  'native_decide, no bv_decide, no sorry',
                  'bin/extract.py (regex-level translator of tables/constants from /repo into '
                  'WfModel/Generated.lean)',
                  'the Rust correspondence harness /verif/harness and its generators (sampling: bounds what '
                  'is seen of the code)',
                  'the hand-written Lean model is tied to the code only by that correspondence and by the '
                  'extracted tables',
                  'modelled, not verified: Rust std sort_unstable_by_key (any start-sorted permutation; '
                  'theorem quantifies over all), Vec::dedup_by, slice::binary_search_by (modelled as a '
                  "halving search), BTreeSet::contains, the cidr crate's first_address/last_address, "
                  'IpAddr/i64 literal parsing (rendered by the harness)']}

TEXT = {'design_ref': 'DESIGN.md section 3, C09',
 'level': 'Lean 4 theorems (inset_exact, inSetIp_exact, cidr_as_range, bsearch_exact, merge_*): for every '
          'list of ranges of any length/order/overlap and every start-sorted permutation the sort may '
          'produce, RangeSet::from + contains is true exactly when some listed item contains x; per-family '
          'split and CIDR=first..=last proved on Nat. The model is a line-by-line transcription of '
          'range_set.rs (59 lines) and of the OneOf arm; it is tied to the code by an exhaustive '
          'small-domain + random differential run through real `in {...}` filters and by the extracted '
          'comparison operators.',
 'note': 'Trusted: Lean kernel; axioms propext/Classical.choice/Quot.sound; extractor; harness. Modelled not '
         'verified: std sort_unstable_by_key (theorem holds for every start-sorted permutation), dedup_by, '
         'binary_search_by (halving search with the same comparator), BTreeSet, cidr crate first/last '
         'address, literal parsing of the rendered items.',
 'technique': 'Lean 4 proof over executable model + differential correspondence with the real engine'}
