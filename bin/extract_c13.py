"""C13 anchors: the default nesting limit and the `with_increased_nesting(` call sites."""
import re


def register(mod):
    def emit(L):
        # ---- default max_nesting_depth in `impl Default for ParserSettings` ------------------
        m = mod.one(
            "engine/src/ast/parse.rs",
            r"impl Default for ParserSettings \{.*?fn default\(\) -> Self \{\s*Self \{(.*?)\}\s*\}\s*\}",
            "defaultMaxNesting",
        )
        if m:
            fields = re.findall(r"max_nesting_depth:\s*([0-9_]+)\s*,", m.group(1))
            if len(fields) != 1:
                mod.problems.append(
                    "defaultMaxNesting: expected exactly one `max_nesting_depth: <int>` in "
                    f"ParserSettings::default(), found {len(fields)}"
                )
            else:
                L.append("/-- `ParserSettings::default().max_nesting_depth` (engine/src/ast/parse.rs) -/")
                L.append(f"def defaultMaxNesting : Nat := {int(fields[0].replace('_', ''))}")
                L.append("")
        # ---- the comparison in with_increased_nesting ---------------------------------------
        m = mod.one(
            "engine/src/ast/parse.rs",
            r"fn with_increased_nesting<'i>\(.*?if self\.current_nesting_depth (\S+) self\.settings\.max_nesting_depth \{\s*Err\(\(\s*LexErrorKind::(\w+)",
            "nestingGuard",
        )
        if m:
            L.append("/-- `with_increased_nesting`: `current_nesting_depth ? max_nesting_depth ⇒ Err(kind)` -/")
            L.append(
                "def nestingGuard : String × String := ("
                + mod.lean_str(m.group(1)) + ", " + mod.lean_str(m.group(2)) + ")"
            )
            L.append("")
        # ---- number of call sites per file ---------------------------------------------------
        rows = []
        for path in (
            "engine/src/ast/logical_expr.rs",
            "engine/src/ast/field_expr.rs",
            "engine/src/ast/function_expr.rs",
            "engine/src/ast/index_expr.rs",
        ):
            text = mod.strip_comments(mod.src(path))
            sites = [text.count("\n", 0, x.start()) + 1 for x in re.finditer(r"\.with_increased_nesting\(", text)]
            mod.report["nestingSites:" + path] = {"file": path, "lines": sites}
            rows.append("(" + mod.lean_str(path) + ", " + str(len(sites)) + ")")
        L.append("/-- number of `.with_increased_nesting(` call sites per file -/")
        L.append("def nestingSites : List (String × Nat) := " + mod.lean_list(rows))
        L.append("")

    mod.EXTRA.append(emit)
