#!/bin/sh
# integrate.sh <agent verif copy>: copy files the agent ADDED (untracked there) into /verif and
# list the tracked files it modified (to be merged by hand).
S="$1"
cd "$S" || exit 1
git status --short | while read st f; do
  case "$f" in
    evidence/*|seeded/*|MANIFEST.json|lean/WfModel/Generated*|work/*|replays/*|harness/Cargo.toml|harness/Cargo.lock|known_findings.jsonl) continue;;
  esac
  if [ "$st" = "??" ]; then
    if [ -d "$S/$f" ]; then mkdir -p "/verif/$f"; cp -r "$S/$f"* "/verif/$f" 2>/dev/null || cp -r "$S/$f"/. "/verif/$f"; else mkdir -p "/verif/$(dirname "$f")"; cp "$S/$f" "/verif/$f"; fi
    echo "added    $f"
  else
    echo "MODIFIED $f"
  fi
done
