//! Scheme / context specifications shared by the core streams: builds the real wirefilter
//! objects and renders the `scheme` / `ctx` op lines for the Lean driver.
use crate::codec::{ty_str, val_str};
use crate::funcs;
use crate::out::hex;
use wirefilter::{
    AlwaysList, ConcatFunction, ExecutionContext, FilterParser, LhsValue, NeverList, Scheme,
    SchemeBuilder, Type,
};

#[derive(Clone, Debug)]
pub struct Fld {
    pub name: String,
    pub ty: Type,
    pub optional: bool,
}

#[derive(Clone, Debug)]
pub struct SchemeSpec {
    pub fields: Vec<Fld>,
    /// (registered name, harness function name)
    pub funcs: Vec<(String, String)>,
    /// (type, kind 'a' always | 'n' never | 's' sets)
    pub lists: Vec<(Type, char)>,
    pub nil_ne: bool,
    /// how the scheme is built (part of the `scheme` line, so every case replays the same way):
    /// bit 0: `SchemeBuilder::default()` instead of `::new()`; bit 1: rely on the documented
    /// default of the nil-not-equal behaviour (`true`) instead of stating it
    pub route: u8,
    pub max_depth: u16,
    pub star_limit: Option<usize>,
}

impl SchemeSpec {
    /// The public API offers two ways to obtain a builder (`SchemeBuilder::new()` and the
    /// `Default` impl, which is what the C API's `wirefilter_create_scheme_builder` uses) and the
    /// nil-not-equal behaviour has a documented default (`true`): all four combinations of
    /// (constructor) x (state the behaviour explicitly | rely on the default when it is the
    /// default) are exercised (`route`).
    pub fn build(&self) -> Scheme {
        self.build_via(self.route & 1 == 0, self.route & 2 == 0, self.route & 4 != 0)
    }

    /// `rejected`: every successful registration is followed by attempts to register the same
    /// name / list type again (as a field, as a function, as the other list kind); they must
    /// fail and — a rejected registration changes nothing — leave the scheme as it was.
    pub fn build_via(&self, via_new: bool, explicit_nil_ne: bool, rejected: bool) -> Scheme {
        let mut b = if via_new { SchemeBuilder::new() } else { SchemeBuilder::default() };
        for (k, f) in self.fields.iter().enumerate() {
            if f.optional {
                b.add_optional_field(&f.name, f.ty).unwrap();
            } else {
                b.add_field(&f.name, f.ty).unwrap();
            }
            if rejected && k % 7 == 0 {
                assert!(b.add_field(&f.name, Type::Bool).is_err(), "field registered twice");
                assert!(b.add_optional_field(&f.name, f.ty).is_err(), "field registered twice");
                assert!(b.add_function(&f.name, funcs::simple("echo").unwrap()).is_err(), "function over a field");
            }
        }
        for (name, fname) in &self.funcs {
            match fname.as_str() {
                "concat" => b.add_function(name, ConcatFunction::new()).unwrap(),
                "ctxfn" => b.add_function(name, funcs::CtxFn).unwrap(),
                other => b
                    .add_function(name, funcs::simple(other).expect("known harness function"))
                    .unwrap(),
            }
        }
        for (ty, kind) in &self.lists {
            match kind {
                'a' => b.add_list(*ty, AlwaysList {}).unwrap(),
                'n' => b.add_list(*ty, NeverList {}).unwrap(),
                _ => b.add_list(*ty, funcs::SetsList).unwrap(),
            }
            if rejected {
                // a second list for the same type, of another kind, is refused
                match kind {
                    'a' => assert!(b.add_list(*ty, NeverList {}).is_err(), "list registered twice"),
                    _ => assert!(b.add_list(*ty, AlwaysList {}).is_err(), "list registered twice"),
                }
            }
        }
        if rejected {
            if let Some((name, _)) = self.funcs.first() {
                assert!(b.add_field(name, Type::Int).is_err(), "field over a function");
            }
        }
        if explicit_nil_ne || !self.nil_ne {
            b.set_nil_not_equal_behavior(self.nil_ne);
        }
        b.build()
    }

    /// A parser configured with this spec's settings. The public API offers two routes to a
    /// configured parser — the setters on a default parser, and a `ParserSettings` struct
    /// (`Scheme::parser_with_settings`) — and both are exercised: the route alternates from
    /// call to call (`parser_via` picks one explicitly).
    pub fn parser<'s>(&self, scheme: &'s Scheme) -> FilterParser<'s> {
        use std::sync::atomic::{AtomicUsize, Ordering};
        static ROUTE: AtomicUsize = AtomicUsize::new(0);
        self.parser_via(scheme, ROUTE.fetch_add(1, Ordering::Relaxed) % 2 == 0)
    }

    pub fn parser_via<'s>(&self, scheme: &'s Scheme, setters: bool) -> FilterParser<'s> {
        if setters {
            let mut p = FilterParser::new(scheme);
            p.set_max_nesting_depth(self.max_depth);
            if let Some(l) = self.star_limit {
                p.wildcard_set_star_limit(l);
            }
            p
        } else {
            let mut st = wirefilter::ParserSettings::default();
            st.max_nesting_depth = self.max_depth;
            if let Some(l) = self.star_limit {
                st.wildcard_star_limit = l;
            }
            scheme.parser_with_settings(st)
        }
    }

    pub fn op_line(&self) -> String {
        let join = |v: Vec<String>| if v.is_empty() { ".".to_string() } else { v.join(",") };
        format!(
            "scheme {} {} {} {} {} {}",
            format!("{}{}", if self.nil_ne { 1 } else { 0 }, ["", "a", "b", "c", "d", "e", "f", "g"][(self.route & 7) as usize]),
            self.max_depth,
            self.star_limit.map_or("-".to_string(), |l| l.to_string()),
            join(self
                .fields
                .iter()
                .map(|f| format!("{}:{}:{}", hex(f.name.as_bytes()), ty_str(&f.ty), f.optional as u8))
                .collect()),
            join(self.funcs.iter().map(|(n, f)| format!("{}:{}", hex(n.as_bytes()), f)).collect()),
            join(self.lists.iter().map(|(t, k)| format!("{}:{}", ty_str(t), k)).collect()),
        )
    }

    pub fn field_index(&self, name: &str) -> Option<usize> {
        self.fields.iter().position(|f| f.name == name)
    }
}

#[derive(Clone, Debug, Default)]
pub struct CtxSpec {
    pub values: Vec<Option<LhsValue<'static>>>,
    /// (list index, set name, members)
    pub sets: Vec<(usize, String, Vec<LhsValue<'static>>)>,
}

impl CtxSpec {
    pub fn op_line(&self) -> String {
        let vals: Vec<String> = self
            .values
            .iter()
            .enumerate()
            .filter_map(|(i, v)| v.as_ref().map(|v| format!("{i}~{}", val_str(v))))
            .collect();
        let sets: Vec<String> = self
            .sets
            .iter()
            .map(|(i, n, vs)| {
                format!(
                    "{i}~{}~{}",
                    hex(n.as_bytes()),
                    if vs.is_empty() {
                        ".".to_string()
                    } else {
                        vs.iter().map(val_str).collect::<Vec<_>>().join("^")
                    }
                )
            })
            .collect();
        format!(
            "ctx {} {}",
            if vals.is_empty() { ".".to_string() } else { vals.join("|") },
            if sets.is_empty() { ".".to_string() } else { sets.join("|") }
        )
    }

    pub fn build<'s>(&self, spec: &SchemeSpec, scheme: &'s Scheme) -> ExecutionContext<'static> {
        let mut ctx = ExecutionContext::new(scheme);
        for (i, v) in self.values.iter().enumerate() {
            if let Some(v) = v {
                ctx.set_field_value(scheme.get_field(&spec.fields[i].name).unwrap(), v.clone())
                    .expect("well-typed generated value");
            }
        }
        for (li, name, members) in &self.sets {
            let ty = spec.lists[*li].0;
            let list = scheme.get_list(&ty).unwrap();
            let m = ctx.get_list_matcher_mut(list);
            if let Some(sm) = m.as_any_mut().downcast_mut::<funcs::SetsMatcher>() {
                sm.sets
                    .entry(name.clone())
                    .or_default()
                    .extend(members.iter().map(val_str));
            }
        }
        ctx
    }
}

/// run `f`, mapping a panic to `None`
pub fn no_panic<T>(f: impl FnOnce() -> T) -> Option<T> {
    std::panic::catch_unwind(std::panic::AssertUnwindSafe(f)).ok()
}

pub fn silence_panics() {
    if std::env::var_os("WFH_SHOW_PANICS").is_some() {
        return;
    }
    std::panic::set_hook(Box::new(|_| {}));
}
