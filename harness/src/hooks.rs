//! The only place of the harness that touches the engine's verification hooks
//! (`wirefilter::verif_hooks`, present when the engine is built with
//! `--cfg cloudflare_wirefilter_verif` and `hooks/c10_anchor_override.patch` is applied to
//! the repository). If the harness fails to compile here, the hook commit is missing.
use wirefilter::verif_hooks as vh;

/// Force the anchor position of SIMD `contains` searchers compiled on this thread
/// (`None` = back to the engine's RNG).
pub fn set_contains_anchor(position: Option<usize>) {
    vh::set_contains_anchor(position);
}

#[derive(Clone, Debug, PartialEq, Eq)]
pub struct Selected {
    /// `empty` | `memchr` | `avx2array<N>` | `avx2boxed` | `simd128` | `memmem`
    pub kind: String,
    /// true for the SIMD kinds (the anchor is used)
    pub simd: bool,
    pub needle_len: usize,
    pub position: Option<usize>,
    pub forced: bool,
}

/// Which searcher the last compilation of a `contains` expression selected on this thread.
pub fn last_contains_searcher() -> Option<Selected> {
    let i = vh::last_contains_searcher()?;
    let (kind, simd) = match i.kind {
        vh::ContainsSearcherKind::Empty => ("empty".to_string(), false),
        vh::ContainsSearcherKind::Memchr => ("memchr".to_string(), false),
        vh::ContainsSearcherKind::Avx2Array(n) => (format!("avx2array{n}"), true),
        vh::ContainsSearcherKind::Avx2Boxed => ("avx2boxed".to_string(), true),
        vh::ContainsSearcherKind::Simd128 => ("simd128".to_string(), true),
        vh::ContainsSearcherKind::Memmem => ("memmem".to_string(), false),
    };
    Some(Selected {
        kind,
        simd,
        needle_len: i.needle_len,
        position: i.position,
        forced: i.position_forced,
    })
}

pub fn reset_last_contains_searcher() {
    vh::reset_last_contains_searcher();
}
