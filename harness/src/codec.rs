//! Text codec of types and values for the line protocol — twin of lean/WfModel/Drv/Codec.lean.
//!   Ty  : B I P Y | A<ty> | M<ty>
//!   Val : b0 b1 | i<int> | 4:<nat> 6:<nat> | y<hex|-> | a<ty>[v;v] | m<ty>{hexkey=v;...}
use crate::out::hex;
use std::net::IpAddr;
use wirefilter::{Array, LhsValue, Map, Type};

pub fn ty_str(t: &Type) -> String {
    match t {
        Type::Bool => "B".into(),
        Type::Int => "I".into(),
        Type::Ip => "P".into(),
        Type::Bytes => "Y".into(),
        Type::Array(t) => format!("A{}", ty_str(&Type::from(*t))),
        Type::Map(t) => format!("M{}", ty_str(&Type::from(*t))),
    }
}

pub fn parse_ty(s: &str) -> Option<Type> {
    let (t, rest) = parse_ty_prefix(s)?;
    if rest.is_empty() { Some(t) } else { None }
}

pub fn parse_ty_prefix(s: &str) -> Option<(Type, &str)> {
    let c = s.chars().next()?;
    let r = &s[1..];
    match c {
        'B' => Some((Type::Bool, r)),
        'I' => Some((Type::Int, r)),
        'P' => Some((Type::Ip, r)),
        'Y' => Some((Type::Bytes, r)),
        'A' => {
            let (t, r) = parse_ty_prefix(r)?;
            Some((Type::Array(t.into()), r))
        }
        'M' => {
            let (t, r) = parse_ty_prefix(r)?;
            Some((Type::Map(t.into()), r))
        }
        _ => None,
    }
}

pub fn val_str(v: &LhsValue<'_>) -> String {
    match v {
        LhsValue::Bool(b) => if *b { "b1".into() } else { "b0".into() },
        LhsValue::Int(i) => format!("i{i}"),
        LhsValue::Ip(IpAddr::V4(a)) => format!("4:{}", u32::from(*a)),
        LhsValue::Ip(IpAddr::V6(a)) => format!("6:{}", u128::from(*a)),
        LhsValue::Bytes(b) => format!("y{}", hex(b)),
        LhsValue::Array(a) => {
            let items: Vec<String> = a.iter().map(val_str).collect();
            format!("a{}[{}]", ty_str(&Type::from(a.value_type())), items.join(";"))
        }
        LhsValue::Map(m) => {
            let items: Vec<String> = m
                .iter()
                .map(|(k, v)| format!("{}={}", hex(k), val_str(v)))
                .collect();
            format!("m{}{{{}}}", ty_str(&Type::from(m.value_type())), items.join(";"))
        }
    }
}

pub fn unhex(s: &str) -> Option<Vec<u8>> {
    if s == "-" {
        return Some(vec![]);
    }
    if s.len() % 2 != 0 {
        return None;
    }
    (0..s.len() / 2)
        .map(|i| u8::from_str_radix(s.get(2 * i..2 * i + 2)?, 16).ok())
        .collect()
}

/// Parses a value; containers are built with the engine's checked constructors, so an
/// ill-typed element yields `None` (use `RawVal` to carry deliberately ill-typed values).
pub fn parse_val(s: &str) -> Option<LhsValue<'static>> {
    let (v, rest) = parse_val_prefix(s)?;
    if rest.is_empty() { Some(v) } else { None }
}

fn is_end(c: char) -> bool {
    matches!(c, ';' | ']' | '}' | '=')
}

fn scalar_end(s: &str) -> usize {
    s.find(is_end).unwrap_or(s.len())
}

pub fn parse_val_prefix(s: &str) -> Option<(LhsValue<'static>, &str)> {
    if let Some(r) = s.strip_prefix("b0") {
        return Some((LhsValue::Bool(false), r));
    }
    if let Some(r) = s.strip_prefix("b1") {
        return Some((LhsValue::Bool(true), r));
    }
    if let Some(r) = s.strip_prefix('i') {
        let e = scalar_end(r);
        return Some((LhsValue::Int(r[..e].parse().ok()?), &r[e..]));
    }
    if let Some(r) = s.strip_prefix("4:") {
        let e = scalar_end(r);
        let n: u32 = r[..e].parse().ok()?;
        return Some((LhsValue::Ip(IpAddr::V4(n.into())), &r[e..]));
    }
    if let Some(r) = s.strip_prefix("6:") {
        let e = scalar_end(r);
        let n: u128 = r[..e].parse().ok()?;
        return Some((LhsValue::Ip(IpAddr::V6(n.into())), &r[e..]));
    }
    if let Some(r) = s.strip_prefix('y') {
        let e = scalar_end(r);
        return Some((LhsValue::Bytes(unhex(&r[..e])?.into()), &r[e..]));
    }
    if let Some(r) = s.strip_prefix('a') {
        let (t, r) = parse_ty_prefix(r)?;
        let mut r = r.strip_prefix('[')?;
        let mut items = Vec::new();
        loop {
            if let Some(r2) = r.strip_prefix(']') {
                r = r2;
                break;
            }
            let (v, r2) = parse_val_prefix(r)?;
            items.push(v);
            r = r2;
            if let Some(r2) = r.strip_prefix(';') {
                r = r2;
            }
        }
        // both public checked constructors must enforce homogeneity identically
        let via_iter = Array::try_from_iter(t, items.iter().cloned());
        let via_vec = Array::try_from_vec(t, items);
        if via_iter.is_ok() != via_vec.is_ok() {
            panic!("Array::try_from_iter and Array::try_from_vec disagree on acceptance");
        }
        let arr = via_vec.ok()?;
        return Some((LhsValue::Array(arr), r));
    }
    if let Some(r) = s.strip_prefix('m') {
        let (t, r) = parse_ty_prefix(r)?;
        let mut r = r.strip_prefix('{')?;
        let mut entries: Vec<Result<(Box<[u8]>, LhsValue<'static>), wirefilter::TypeMismatchError>> = Vec::new();
        loop {
            if let Some(r2) = r.strip_prefix('}') {
                r = r2;
                break;
            }
            let e = r.find('=')?;
            let k = unhex(&r[..e])?;
            let (v, r2) = parse_val_prefix(&r[e + 1..])?;
            entries.push(Ok((k.into_boxed_slice(), v)));
            r = r2;
            if let Some(r2) = r.strip_prefix(';') {
                r = r2;
            }
        }
        let map = Map::try_from_iter(t, entries).ok()?;
        return Some((LhsValue::Map(map), r));
    }
    None
}
