//! Stream `nest` (C13): every sequence of the nesting constructs (parenthesis, not,
//! quantifier, function-call argument list) up to a depth bound, at boolean and at array
//! level, with the deepest path alone / in the right operand of a chain (at top level and inside
//! every parenthesised group) / in a function argument, parsed under every configured limit d.
use crate::Cfg;
use crate::core;
use crate::coreops::Core;
use crate::fgen;
use crate::out::{Out, hex};

/// render a shape; returns (text, nesting depth as the property counts it)
fn render(shape: &[u8], wrapper: u8, variant: u8, pmode: u8) -> (String, u32) {
    // pmode: how a boolean-level parenthesis is filled: 0 `(X)`, 1 `(b or X)`, 2 `(b and ob xor X)`,
    // 3 `(X or b)` - the deepest path in a non-first / first operand of a chain INSIDE a group
    // (seeded change C13-e: the group's depth was only handed to the first operand)
    // constructs at boolean level: P ( ), N not, F b2i(..)==1, Q any(..) -> array level
    // constructs at array level: p ( ), n not, m mapped call atom
    let mut arr = false;
    let mut open = String::new();
    let mut close = String::new();
    let mut depth = 0u32;
    let mut atom: Option<String> = None;
    for &c in shape {
        match (c, arr) {
            (b'P', false) if pmode != 0 => {
                open.push_str(match pmode {
                    1 => "(b or ",
                    2 => "(b and ob xor ",
                    _ => "(",
                });
                close.insert_str(0, if pmode == 3 { " or b)" } else { ")" });
                depth += 1;
            }
            (b'P', _) => {
                open.push('(');
                close.insert(0, ')');
                depth += 1;
            }
            (b'N', _) => {
                open.push_str("not ");
                depth += 1;
            }
            (b'F', false) => {
                open.push_str("b2i(");
                close.insert_str(0, ") == 1");
                depth += 1;
            }
            (b'Q', false) => {
                open.push_str("any(");
                close.insert(0, ')');
                depth += 1;
                arr = true;
            }
            (b'F', true) | (b'Q', true) => {
                // not available at array level: end with a mapped-call atom instead
                atom = Some("len(ay[*])[*] == 1".to_string());
                depth += 1;
                break;
            }
            _ => {}
        }
    }
    // what sits at the deepest level: a plain comparison, or — operators are not nesting —
    // a chain whose precedence climbs (`or` then `and`, `or` then `xor` then `and`), or a call
    // with an empty argument list (a call IS a nesting level)
    let after_pn = matches!(shape.last(), Some(b'P') | Some(b'N'));
    let atom = atom.unwrap_or_else(|| match (arr, variant) {
        (false, 1) if after_pn => "b or ob and b".to_string(),
        (false, 2) if after_pn => "b or ob xor b and ob".to_string(),
        (false, 3) => {
            depth += 1;
            "nil0()".to_string()
        }
        (true, 1) | (true, 2) => {
            depth += 1;
            "(ai[*] == 1 or ai[*] == 2 and ai[*] == 3)".to_string()
        }
        (true, _) => "ai[*] == 1".to_string(),
        _ => "i == 1".to_string(),
    });
    let core = format!("{open}{atom}{close}");
    let text = match wrapper {
        0 => core,
        1 => format!("b and {core}"),
        2 => format!("{core} or b"),
        3 => format!("b and ob xor {core}"),
        _ => format!("b2i({core}) == 1"),
    };
    let extra = if wrapper == 4 { 1 } else { 0 };
    (text, depth + extra)
}

pub fn run(cfg: Cfg, out: &mut Out) {
    core::silence_panics();
    let mut rng = cfg.rng();
    let max_len = if cfg.quick() { 6 } else { 9 };
    let mut core = Core::new();
    let mut spec = fgen::rich_scheme(&mut rng, 128);
    spec.lists.clear();
    // enumerate shapes
    let alphabet = [b'P', b'N', b'F', b'Q'];
    let mut shapes: Vec<Vec<u8>> = vec![vec![]];
    let mut frontier: Vec<Vec<u8>> = vec![vec![]];
    for _ in 0..max_len {
        let mut next = Vec::new();
        for s in &frontier {
            let arr = s.contains(&b'Q');
            for &c in &alphabet {
                if arr && (c == b'F' || c == b'Q') {
                    // one terminal variant at array level
                    if c == b'F' {
                        let mut t = s.clone();
                        t.push(c);
                        shapes.push(t);
                    }
                    continue;
                }
                let mut t = s.clone();
                t.push(c);
                shapes.push(t.clone());
                next.push(t);
            }
        }
        frontier = next;
    }
    let mut idx = 0u64;
    for d in 0..=8u16 {
        spec.max_depth = d;
        let line = spec.op_line();
        let a = core.apply(&line).unwrap();
        out.case(&line, &a, None, &["scheme"]);
        for s in &shapes {
            idx += 1;
            if !cfg.mine(idx) {
                continue;
            }
            let wrapper = (idx % 5) as u8;
            let (text, depth) = render(s, wrapper, ((idx / 5) % 4) as u8, ((idx / 20) % 4) as u8);
            let op = format!("parse {}", hex(text.as_bytes()));
            let ans = core.apply(&op).unwrap();
            // oracle from the property text: accepted iff nesting <= d
            let expect = if depth <= d as u32 { "ok" } else { "err" };
            if ans != expect {
                out.impl_failure(&op, &format!("nesting {depth} under limit {d}: implementation says {ans}, property says {expect} for {text:?}"));
            }
            let key = format!("{d} {text}");
            let tags = [if ans == "ok" { "accepted" } else { "rejected" }, if depth == d as u32 { "at.limit" } else if depth == d as u32 + 1 { "limit.plus1" } else { "other" }];
            out.case(&op, &ans, if depth >= 1 { Some(&key) } else { None }, &tags);
        }
    }
    // large limits against random shapes at d-1, d, d+1
    for &d in &[16u16, 64, 128, 129, 200] {
        spec.max_depth = d;
        let line = spec.op_line();
        let a = core.apply(&line).unwrap();
        out.case(&line, &a, None, &["scheme"]);
        let n = cfg.share(if cfg.quick() { 60 } else { 1500 });
        for _ in 0..n {
            let target = (d as i64 + rng.range(-1, 1)) as usize;
            let wrapper = rng.below(5) as u8;
            let target = target - if wrapper == 4 { 1 } else { 0 };
            let mut s = Vec::new();
            let mut arr = false;
            for k in 0..target {
                let c = if arr {
                    if k + 1 == target && rng.chance(1, 3) { b'F' } else { *rng.pick(&[b'P', b'N']) }
                } else {
                    *rng.pick(&[b'P', b'N', b'F', b'Q', b'P', b'N', b'F'])
                };
                if c == b'Q' {
                    arr = true;
                }
                s.push(c);
            }
            let variant = rng.below(4) as u8;
            let pmode = rng.below(4) as u8;
            let (text, depth) = render(&s, wrapper, variant, pmode);
            let op = format!("parse {}", hex(text.as_bytes()));
            let ans = core.apply(&op).unwrap();
            let expect = if depth <= d as u32 { "ok" } else { "err" };
            if ans != expect {
                out.impl_failure(&op, &format!("nesting {depth} under limit {d}: implementation says {ans}, property says {expect}"));
            }
            // value expressions too
            out.case(&op, &ans, Some(&format!("{d} {text}")), &["big.limit", if ans == "ok" { "accepted" } else { "rejected" }]);
        }
        // value expression: nested calls  lower(lower(...(y)))
        for delta in [-1i64, 0, 1] {
            let k = (d as i64 + delta) as usize;
            let text = format!("{}y{}", "lower(".repeat(k), ")".repeat(k));
            let op = format!("parsev {}", hex(text.as_bytes()));
            let ans = core.apply(&op).unwrap();
            let expect = if k <= d as usize { "ok" } else { "err" };
            if ans != expect {
                out.impl_failure(&op, &format!("value expression with {k} nested calls under limit {d}: {ans}, expected {expect}"));
            }
            out.case(&op, &ans, Some(&format!("v {d} {k}")), &["value.nest"]);
        }
    }
}
