//! Stream `fuzz` (C05): parsing is total and errors are well-formed.
//!  * token soups over the language's alphabet, mutated valid filters (insert / delete /
//!    duplicate / truncate, also next to multi-byte characters, escapes, raw-string
//!    delimiters, braces, brackets) and random Unicode: `parse` / `parsev` verdicts are
//!    compared with the model, and every `ParseError` is checked against the property
//!    (designates a line of the input, column range inside that line, `to_string()` works);
//!  * very long flat chains and very deep nestings run in a child process under a small
//!    stack (`oracle` lines: the verdict is established here, the model answers `ok`).
use crate::Cfg;
use crate::core;
use crate::coreops::Core;
use crate::fgen::{self, G};
use crate::out::{Out, hex};
use crate::rng::Rng;

const TOKENS: [&str; 83] = [
    "\"\\\u{e9}\"", "\"a\\\u{1F600}", "y == \"\\\u{e9}", "[\"\\\u{e9}\"]", "{\"\\\u{e9}\"}",
    "b", "i", "p", "y", "ob", "ai", "ay", "my", "aab", "mab", "http.host", "tcp.port", "len", "lower", "concat",
    "any", "all", "not", "!", "and", "&&", "or", "||", "xor", "^^", "==", "eq", "!=", "ne", "<", "<=", ">", ">=",
    "lt", "le", "gt", "ge", "&", "bitwise_and", "in", "contains", "matches", "~", "wildcard", "strict wildcard",
    "(", ")", "[", "]", "[*]", "[0]", "[\"a\"]", "{", "}", ",", "..", "$l1", "$", "\"a\"", "\"", "\\", "r\"x\"",
    "r#\"", "\"#", "1", "-1", "0x1f", "017", "9223372036854775808", "1.2.3.4", "::1", "10.0.0.0/8", "61:62",
    "\u{e9}", "\u{1F600}", "\t", "\n", " ",
];

/// checks the property's clauses on a parse error; returns a description when violated
fn check_error(input: &str, err: &wirefilter::ParseError<'_>) -> Option<String> {
    let shown = match core::no_panic(|| err.to_string()) {
        Some(s) => s,
        None => return Some("ParseError::to_string panicked".into()),
    };
    let dbg = format!("{err:?}");
    let num = |key: &str| -> Option<usize> {
        let p = dbg.rfind(key)? + key.len();
        let tail = &dbg[p..];
        let end = tail.find(|c: char| !c.is_ascii_digit()).unwrap_or(tail.len());
        tail[..end].parse().ok()
    };
    let (ln, st, len) = (num("line_number: ")?, num("span_start: ")?, num("span_len: ")?);
    let lines: Vec<&str> = input.split('\n').collect();
    let Some(line) = lines.get(ln) else {
        return Some(format!("line number {ln} is not a line of the input ({} lines)", lines.len()));
    };
    let shown_lines: Vec<&str> = shown.split('\n').collect();
    if shown_lines.len() < 3 {
        return Some("formatted error has fewer than 3 lines".into());
    }
    // the second line of the formatted error is the designated line
    let printed: String = shown_lines[1..shown_lines.len() - 2].join("\n");
    if printed != *line && shown_lines.get(1) != Some(line) {
        return Some(format!("designated line {printed:?} is not line {ln} of the input ({line:?})"));
    }
    if st + len > line.len() {
        return Some(format!("column range {st}+{len} exceeds the line length {}", line.len()));
    }
    None
}

fn parse_checked(core: &mut Core, out: &mut Out, text: &str, value: bool, tag: &'static str) {
    let opname = if value { "parsev" } else { "parse" };
    let op = format!("{opname} {}", hex(text.as_bytes()));
    // property oracle on the real error object
    let verdict = core::no_panic(|| {
        let parser = core.spec.parser(&core.scheme);
        if value {
            match parser.parse_value(text) {
                Ok(_) => None,
                Err(e) => check_error(text, &e),
            }
        } else {
            match parser.parse(text) {
                Ok(_) => None,
                Err(e) => check_error(text, &e),
            }
        }
    });
    match verdict {
        None => out.impl_failure(&op, &format!("parser panicked on {text:?}")),
        Some(Some(what)) => out.impl_failure(&op, &format!("ill-formed parse error on {text:?}: {what}")),
        Some(None) => {}
    }
    let ans = core.apply(&op).unwrap();
    let key = if text.len() >= 6 { Some(text) } else { None };
    out.case(&op, &ans, key, &[tag, if ans == "ok" { "fuzz.ok" } else if ans == "err" { "fuzz.err" } else { "fuzz.panic" }]);
}

fn mutate(t: &str, rng: &mut Rng) -> String {
    let cs: Vec<char> = t.chars().collect();
    if cs.is_empty() {
        return "(".into();
    }
    let i = rng.below(cs.len() as u64) as usize;
    let mut v = cs.clone();
    match rng.below(7) {
        0 => {
            v.remove(i);
        }
        1 => v.insert(i, *rng.pick(&['"', '\\', '(', ')', '[', ']', '{', '}', '#', 'r', '*', '.', '$', '\u{e9}', '\u{1F600}', '\n', '\t', '0', '-', '+', ',', ' '])),
        2 => {
            let c = v[i];
            v.insert(i, c);
        }
        3 => v.truncate(i),
        4 => {
            let j = rng.below(cs.len() as u64) as usize;
            v.swap(i, j);
        }
        5 => {
            let j = (i + 1 + rng.below(6) as usize).min(v.len());
            let seg: Vec<char> = v[i..j].to_vec();
            for (k, c) in seg.into_iter().enumerate() {
                v.insert(j + k, c);
            }
        }
        _ => v[i] = *rng.pick(&['"', '\\', ')', ']', '}', 'x', '9', '\u{e9}', '\r', '\n']),
    }
    v.into_iter().collect()
}

pub fn run(cfg: Cfg, out: &mut Out) {
    core::silence_panics();
    let mut rng = cfg.rng();
    let mut core = Core::new();
    let spec = fgen::rich_scheme(&mut rng, 128);
    let line = spec.op_line();
    let a = core.apply(&line).unwrap();
    out.case(&line, &a, None, &["scheme"]);

    // 1. token soups
    let n = cfg.share(if cfg.quick() { 12_000 } else { 1_500_000 });
    for _ in 0..n {
        let k = 1 + rng.below(14) as usize;
        let mut t = String::new();
        for j in 0..k {
            if j > 0 && rng.chance(3, 4) {
                t.push(' ');
            }
            let tok: &str = TOKENS[rng.below(TOKENS.len() as u64) as usize];
            t.push_str(tok);
        }
        let value = rng.chance(1, 8);
        parse_checked(&mut core, out, &t, value, "soup");
    }
    // 2. mutations of valid filters
    let n = cfg.share(if cfg.quick() { 6_000 } else { 800_000 });
    for _ in 0..n {
        let depth = *rng.pick(&[1u32, 2, 3]);
        let mut g = G::new(&mut rng, &spec);
        g.allow_regex = true;
        let mut t = g.expr(false, depth);
        let rounds = 1 + rng.below(3);
        for _ in 0..rounds {
            t = mutate(&t, &mut rng);
        }
        parse_checked(&mut core, out, &t, false, "mutant");
    }
    // 3. random Unicode
    let n = cfg.share(if cfg.quick() { 3_000 } else { 300_000 });
    for _ in 0..n {
        let k = rng.below(24) as usize;
        let t: String = (0..k)
            .map(|_| match rng.below(6) {
                0 => char::from_u32(rng.below(0x80) as u32).unwrap(),
                1 => char::from_u32(0x80 + rng.below(0x780) as u32).unwrap(),
                2 => char::from_u32(0x800 + rng.below(0xd000) as u32).unwrap_or('\u{fffd}'),
                3 => char::from_u32(0x10000 + rng.below(0xffff) as u32).unwrap_or('\u{fffd}'),
                4 => *rng.pick(&['\n', '\r', ' ', '\t', '\u{85}', '\u{a0}', '\u{2028}', '\u{3000}']),
                _ => *rng.pick(&['i', '=', '1', '"', '(', ')', '[', ']', '\\']),
            })
            .collect();
        parse_checked(&mut core, out, &t, rng.chance(1, 6), "unicode");
    }
    // multi-line inputs with errors on later lines
    for _ in 0..cfg.share(if cfg.quick() { 1_000 } else { 50_000 }) {
        let mut g = G::new(&mut rng, &spec);
        let good = g.expr(false, 2);
        let junk = *rng.pick(&["==", ")", "\"abc", "nosuch", "i in {1..}", "\u{e9}\u{e9} x", "y == \"\\q\"", "ai[-1]", "i == 1 2"]);
        let t = match rng.below(7) {
            4 => format!("{good} and\n{junk}"),
            5 => format!("{good} or\r\n{junk}\n"),
            6 => format!("{good}\n&&\n{junk}"),
            0 => format!("{good}\nand {junk}"),
            1 => format!("{good} and\n\n  {junk}\n"),
            2 => format!("\n\n{junk}\n{good}"),
            _ => format!("{good}\r\nor\r\n{junk} \u{e9}\n"),
        };
        parse_checked(&mut core, out, &t, false, "multiline");
    }

    // literals that a second-stage parser (wildcard, regex, network) validates or rejects:
    // escapes, stars, raw-string delimiters and multi-byte characters in every order — the
    // error spans of these stages are computed from decoded lengths and offsets
    for _ in 0..cfg.share(if cfg.quick() { 3_000 } else { 300_000 }) {
        const PIECES: [&str; 20] = [
            "*", "**", "\\x2a", "\\\\", "\\*", "\\q", "a", "\u{e9}", "\u{20ac}", "\u{65e5}", "?", "[", "(", "\\052", "\\xff", "{1,", "+", "\u{1f600}", ")", "\\",
        ];
        let k = 1 + rng.below(6) as usize;
        let body: String = (0..k).map(|_| *rng.pick(&PIECES)).collect();
        let lit = match rng.below(5) {
            0 | 1 => format!("\"{body}\""),
            2 => format!("r\"{body}\""),
            3 => format!("r#\"{body}\"#"),
            _ => format!("r##\"{body}\"##"),
        };
        let op = *rng.pick(&["wildcard", "strict wildcard", "wildcard", "matches", "~", "contains", "==", "in"]);
        let field = *rng.pick(&["y", "http.host", "oy", "ay[0]"]);
        let t = if op == "in" { format!("{field} in {{{lit}}}") } else { format!("{field} {op} {lit}") };
        let t = if rng.chance(1, 4) { format!("b and\n{t}") } else { t };
        parse_checked(&mut core, out, &t, false, "literal-stage");
    }

    // 4. very long chains / very deep nestings in a child process with a small stack
    if cfg.shard == 0 {
        let sizes: &[usize] = if cfg.quick() { &[1_000, 100_000] } else { &[1_000, 100_000, 1_000_000] };
        for kind in ["chain", "parens", "nots", "calls", "quants", "brackets", "bangs", "braces"] {
            for &n in sizes {
                let op = format!("oracle deep {kind} {n}");
                let exe = std::fs::read_link("/proc/self/exe").unwrap_or_else(|_| std::env::current_exe().unwrap());
                let res = std::process::Command::new(exe)
                    .args(["replay", "fuzz-child", kind, &n.to_string()])
                    .output();
                let ans = match res {
                    Ok(o) if o.status.success() => {
                        let s = String::from_utf8_lossy(&o.stdout).trim().to_string();
                        let expect = if kind == "chain" || kind == "braces" { "ok" } else { "err" };
                        if s == expect { "ok".to_string() } else { format!("child answered {s:?}, expected {expect}") }
                    }
                    Ok(o) => format!("child died: {:?}", o.status),
                    Err(e) => format!("spawn failed: {e}"),
                };
                if ans != "ok" {
                    out.impl_failure(&op, &format!("{kind} x {n}: {ans}"));
                }
                out.case(&op, &ans.replace(' ', "_"), Some(&op), &["deep"]);
            }
        }
    }
}

/// child: parse one huge input on a thread with a 2 MiB stack; prints ok / err
pub fn child(args: &str) -> Option<String> {
    let w: Vec<&str> = args.split(' ').collect();
    let kind = w.first()?.to_string();
    let n: usize = w.get(1)?.parse().ok()?;
    let text = match kind.as_str() {
        "chain" => {
            let mut t = String::with_capacity(n * 12);
            for k in 0..n {
                if k > 0 {
                    t.push_str(*["and", "or", "xor", "&&"].get(k % 4).unwrap());
                    t.push(' ');
                }
                t.push_str("i == 1 ");
            }
            t
        }
        "parens" => format!("{}b{}", "(".repeat(n), ")".repeat(n)),
        "nots" => format!("{}b", "not ".repeat(n)),
        "bangs" => format!("{}b", "!".repeat(n)),
        "calls" => format!("{}y{} == \"a\"", "lower(".repeat(n), ")".repeat(n)),
        "quants" => format!("{}ab{}", "any(".repeat(n), ")".repeat(n)),
        "brackets" => format!("aaai{} == 1", "[0]".repeat(n)),
        "braces" => format!("i in {{{}}}", "1 ".repeat(n)),
        _ => return None,
    };
    let h = std::thread::Builder::new()
        .stack_size(2 * 1024 * 1024)
        .spawn(move || {
            let mut b = wirefilter::SchemeBuilder::new();
            b.add_field("i", wirefilter::Type::Int).unwrap();
            b.add_field("b", wirefilter::Type::Bool).unwrap();
            b.add_field("y", wirefilter::Type::Bytes).unwrap();
            b.add_field("ab", wirefilter::Type::Array(wirefilter::Type::Bool.into())).unwrap();
            b.add_field("aaai", wirefilter::Type::Array(wirefilter::Type::Array(wirefilter::Type::Array(wirefilter::Type::Int.into()).into()).into())).unwrap();
            b.add_function("lower", crate::funcs::simple("lower").unwrap()).unwrap();
            let s = b.build();
            match s.parse(&text) {
                Ok(ast) => {
                    // compile, serialize and drop as well: all bounded by the nesting limit
                    let _ = serde_json::to_string(&ast).map(|j| j.len());
                    let f = ast.compile();
                    drop(f);
                    "ok"
                }
                Err(e) => {
                    let _ = e.to_string();
                    "err"
                }
            }
        })
        .ok()?;
    h.join().ok().map(|s| s.to_string())
}
