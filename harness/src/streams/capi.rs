//! C20 — the exported `wirefilter_*` functions (called as Rust functions from the rlib)
//! alongside the Rust API on the same inputs.
//!
//! op lines (see lean/WfModel/Drv/CApi.lean):
//!   cstr <op,op,...|.>            history on this thread's LAST_ERROR -> raw vector + C view
//!   capi hash <hex json>          wirefilter_get_filter_hash -> decimal u64
//!   capi seq <call,call,...>      calls with their nested outcome as established through the
//!                                 Rust API (UTF-8 validity, engine Ok/Err + Display text, armed
//!                                 panic) -> per call `<ret>/<last error as C sees it>`
//! The Lean side checks the CString history model, the status mapping + last-error effect and
//! FNV-1a. Agreement between C API and Rust API on the same engine (JSON, hash value, match,
//! uses, context serialization) is checked here and reported with `out.impl_failure`.
use crate::Cfg;
use crate::out::{Out, hex};
use crate::rng::Rng;
use serde::de::DeserializeSeed;
use std::cell::Cell;
use std::ffi::CStr;
use std::iter::once;
use std::sync::Once;
use wirefilter::{
    CompiledFunction, ExpectedType, FunctionDefinition, FunctionDefinitionContext, FunctionParam,
    FunctionParamError, GetType, LhsValue, ParserSettings, Type,
};
use wirefilter_ffi as ffi;
use wirefilter_ffi::{CType, Status};

// ---------------------------------------------------------------------------- panic on demand

thread_local! {
    /// 0 = never, 1 = while parsing (check_param), 2 = while compiling, 3 = while executing
    static ARMED: Cell<u8> = const { Cell::new(0) };
    static BOOM_ID: Cell<u64> = const { Cell::new(0) };
}

fn marker(n: u64) -> String {
    format!("wfpanic#{n}#")
}

fn boom_if(stage: u8) {
    if ARMED.with(|a| a.get()) == stage {
        panic!("{}", marker(BOOM_ID.with(|b| b.get())));
    }
}

/// `boom(<int>) -> bool`: returns true, or panics at the armed stage.
#[derive(Debug)]
struct Boom;

impl FunctionDefinition for Boom {
    fn check_param(
        &self,
        _settings: &ParserSettings,
        _params: &mut dyn ExactSizeIterator<Item = FunctionParam<'_>>,
        next_param: &FunctionParam<'_>,
        _ctx: Option<&mut FunctionDefinitionContext>,
    ) -> Result<(), FunctionParamError> {
        boom_if(1);
        next_param.expect_val_type(once(ExpectedType::Type(Type::Int)))
    }
    fn return_type(
        &self,
        _params: &mut dyn ExactSizeIterator<Item = FunctionParam<'_>>,
        _ctx: Option<&FunctionDefinitionContext>,
    ) -> Type {
        Type::Bool
    }
    fn arg_count(&self) -> (usize, Option<usize>) {
        (1, Some(0))
    }
    fn compile(
        &self,
        _params: &mut dyn ExactSizeIterator<Item = FunctionParam<'_>>,
        _ctx: Option<FunctionDefinitionContext>,
    ) -> CompiledFunction {
        boom_if(2);
        Box::new(|_args| {
            boom_if(3);
            Some(LhsValue::Bool(true))
        })
    }
}

static HOOKS: Once = Once::new();

/// silent process hook first, then the catcher's hook; catching enabled on this thread
fn setup_catcher() {
    HOOKS.call_once(|| {
        let _ = std::panic::take_hook();
        std::panic::set_hook(Box::new(|_| {}));
        ffi::panic::wirefilter_set_panic_catcher_hook();
    });
    ffi::panic::wirefilter_enable_panic_catcher();
}

// ---------------------------------------------------------------------------- last error

fn le_view() -> Option<Vec<u8>> {
    let p = ffi::wirefilter_get_last_error();
    if p.is_null() { None } else { Some(unsafe { CStr::from_ptr(p) }.to_bytes().to_vec()) }
}

/// the raw vector behind LAST_ERROR, read through its derived `Debug` ("CString([1, 2, 0])")
fn le_raw() -> Vec<u8> {
    let s = ffi::LAST_ERROR.with_borrow(|e| format!("{e:?}"));
    s.split(|c: char| !c.is_ascii_digit()).filter(|t| !t.is_empty()).filter_map(|t| t.parse().ok()).collect()
}

fn raw_ok(raw: &[u8]) -> bool {
    raw.is_empty() || (raw[raw.len() - 1] == 0 && !raw[..raw.len() - 1].contains(&0))
}

fn show_view(v: &Option<Vec<u8>>) -> String {
    match v {
        None => "null".into(),
        Some(b) => {
            let s = String::from_utf8_lossy(b);
            if let Some(p) = s.find("wfpanic#") {
                let digits: String = s[p + 8..].chars().take_while(|c| c.is_ascii_digit()).collect();
                return format!("P{digits}");
            }
            hex(b)
        }
    }
}

fn status_num(s: &Status) -> u8 {
    match s {
        Status::Success => 0,
        Status::Error => 1,
        Status::Panic => 2,
    }
}

// ---------------------------------------------------------------------------- cstr histories

#[derive(Clone, Debug)]
enum COp {
    Write(Vec<u8>),
    Clear,
    SetError(String),
}

fn cop_token(op: &COp) -> String {
    match op {
        COp::Write(b) => format!("w{}", hex(b)),
        COp::Clear => "c".into(),
        COp::SetError(s) => format!("e{}", hex(s.as_bytes())),
    }
}

fn apply_cop(op: &COp, flavour: u64) {
    match op {
        COp::Write(b) => {
            // io::Write::write on arbitrary bytes, or fmt::Write::write_str when it is text
            match std::str::from_utf8(b) {
                Ok(s) if flavour % 2 == 1 => ffi::LAST_ERROR.with_borrow_mut(|e| {
                    use std::fmt::Write;
                    e.write_str(s).unwrap();
                }),
                _ => ffi::LAST_ERROR.with_borrow_mut(|e| {
                    use std::io::Write;
                    let n = e.write(b).unwrap();
                    assert_eq!(n, b.len());
                }),
            }
        }
        COp::Clear => ffi::wirefilter_clear_last_error(),
        COp::SetError(s) => {
            use std::io::Write;
            ffi::write_last_error!("{}", s);
        }
    }
}

fn run_cstr(out: &mut Out, h: &[COp], flavour: u64, tag: &str) {
    ffi::wirefilter_clear_last_error();
    let toks: Vec<String> = h.iter().map(cop_token).collect();
    let op = format!("cstr {}", if toks.is_empty() { ".".into() } else { toks.join(",") });
    for (k, c) in h.iter().enumerate() {
        // a panic inside the string buffer is the answer of this history, not the end of the run
        if std::panic::catch_unwind(std::panic::AssertUnwindSafe(|| apply_cop(c, flavour >> k))).is_err() {
            out.case(&op, &format!("panic@{k}"), Some(&op), &[tag, "cstr.panic"]);
            ffi::wirefilter_clear_last_error();
            return;
        }
        let raw = le_raw();
        if !raw_ok(&raw) {
            out.impl_failure(&op, &format!("LAST_ERROR vector {:?} after step {k} is neither empty nor NUL-terminated without interior NUL", raw));
        }
    }
    let raw = le_raw();
    let view = le_view();
    let ans = format!("{} {}", hex(&raw), match &view { None => "null".into(), Some(b) => hex(b) });
    let nontrivial = h.len() >= 2 && h.iter().any(|c| match c {
        COp::Write(b) => b.contains(&0),
        COp::SetError(s) => s.as_bytes().contains(&0),
        _ => false,
    });
    out.case(&op, &ans, if nontrivial { Some(&op) } else { None }, &[tag, &format!("{tag}.len{}", h.len().min(9))]);
    ffi::wirefilter_clear_last_error();
}

fn cstr_part(cfg: Cfg, out: &mut Out, rng: &mut Rng) {
    let alpha: Vec<COp> = vec![
        COp::Clear,
        COp::Write(vec![]),
        COp::Write(vec![0]),
        COp::Write(vec![0x41]),
        COp::Write(vec![0x41, 0, 0x42]),
        COp::Write(vec![0xff, 0]),
        COp::SetError(String::new()),
        COp::SetError("\0".into()),
        COp::SetError("e\0é".into()),
    ];
    let maxlen = if cfg.quick() { 4 } else { 5 };
    let mut index = 0u64;
    for len in 0..=maxlen {
        let total = (alpha.len() as u64).pow(len as u32);
        for i in 0..total {
            index += 1;
            if !cfg.mine(index) {
                continue;
            }
            let mut k = i;
            let mut h = vec![];
            for _ in 0..len {
                h.push(alpha[(k % alpha.len() as u64) as usize].clone());
                k /= alpha.len() as u64;
            }
            run_cstr(out, &h, i, "cstr.exh");
        }
    }
    let n = cfg.share(if cfg.quick() { 4000 } else { 200_000 });
    for _ in 0..n {
        let len = 1 + rng.below(12) as usize;
        let mut h = vec![];
        for _ in 0..len {
            let r = rng.below(10);
            if r < 2 {
                h.push(COp::Clear);
            } else if r < 7 {
                let l = rng.below(7) as usize;
                h.push(COp::Write((0..l).map(|_| if rng.chance(1, 3) { 0 } else { rng.below(256) as u8 }).collect()));
            } else {
                let l = rng.below(6) as usize;
                let s: String = (0..l)
                    .map(|_| *rng.pick(&['\0', 'a', 'Z', ' ', '\n', 'é', '\u{1a}', '€']))
                    .collect();
                h.push(COp::SetError(s));
            }
        }
        let fl = rng.next();
        run_cstr(out, &h, fl, "cstr.rand");
    }
}

// ---------------------------------------------------------------------------- schemes, contexts

const FIELDS: &[(&str, fn() -> Type)] = &[
    ("ip1", || Type::Ip),
    ("str1", || Type::Bytes),
    ("num1", || Type::Int),
    ("num2", || Type::Int),
    ("b1", || Type::Bool),
    ("arr1", || Type::Array(Type::Int.into())),
    ("map1", || Type::Map(Type::Bytes.into())),
];

fn c_add_field(b: &mut ffi::SchemeBuilder, name: &[u8], ty: Type) -> bool {
    ffi::wirefilter_add_type_field_to_scheme(b, name.as_ptr().cast(), name.len(), CType::from(ty))
}

/// the scheme built through the C API (+ the harness function `boom`, added through DerefMut
/// as there is no C entry point for functions)
fn build_scheme(out: &mut Out, with_boom: bool) -> Box<ffi::Scheme> {
    let mut b = ffi::wirefilter_create_scheme_builder();
    let mut rb = wirefilter::SchemeBuilder::new();
    for (name, ty) in FIELDS {
        if !c_add_field(&mut b, name.as_bytes(), ty()) {
            out.impl_failure("capi setup", &format!("wirefilter_add_type_field_to_scheme refused field {name}"));
        }
        rb.add_field(*name, ty()).unwrap();
    }
    if !ffi::wirefilter_add_always_list_to_scheme(&mut b, CType::from(Type::Int)) {
        out.impl_failure("capi setup", "wirefilter_add_always_list_to_scheme refused an Int list");
    }
    rb.add_list(Type::Int, wirefilter::AlwaysList {}).unwrap();
    if !ffi::wirefilter_add_never_list_to_scheme(&mut b, CType::from(Type::Bytes)) {
        out.impl_failure("capi setup", "wirefilter_add_never_list_to_scheme refused a Bytes list");
    }
    rb.add_list(Type::Bytes, wirefilter::NeverList {}).unwrap();
    if with_boom {
        // schemes serialize without functions, so the comparison below is unaffected
        b.add_function("boom", Boom).unwrap();
    }
    let s = ffi::wirefilter_build_scheme(b);
    // the C-built scheme is the Rust-built scheme
    let rs = rb.build();
    let cj = ffi::wirefilter_serialize_scheme_to_json(&s);
    let rj = serde_json::to_string(&rs).unwrap();
    let cjs = ras_bytes(&cj.json).map(|b| b.to_vec());
    if status_num(&cj.status) != 0 || cjs.as_deref() != Some(rj.as_bytes()) {
        out.impl_failure("capi setup", &format!("scheme JSON differs: C {:?} vs Rust {rj}", cjs.map(|b| String::from_utf8_lossy(&b).to_string())));
    }
    ffi::wirefilter_free_string(cj.json);
    // ... and means the same: the C builder (`Default`) and the Rust builder (`new()`) must agree
    // on behaviour that no document shows, e.g. the documented default "nil != x is true"
    let fill = |sch: &wirefilter::Scheme| -> wirefilter::ExecutionContext<'static> {
        let mut c = wirefilter::ExecutionContext::<()>::new(sch);
        c.set_field_value_from_name("ip1", std::net::IpAddr::from([10u8, 0, 0, 1])).unwrap();
        c.set_field_value_from_name("str1", &b"ab"[..]).unwrap();
        c.set_field_value_from_name("num1", 1i64).unwrap();
        c.set_field_value_from_name("num2", 2i64).unwrap();
        c.set_field_value_from_name("b1", true).unwrap();
        c.set_field_value_from_name("arr1", wirefilter::LhsValue::Array(wirefilter::Array::new(Type::Int))).unwrap();
        c.set_field_value_from_name("map1", wirefilter::LhsValue::Map(wirefilter::Map::new(Type::Bytes))).unwrap();
        c
    };
    let (cc, rc) = (fill(&s), fill(&rs));
    for (text, documented) in [
        ("map1[\"absent\"] != \"x\"", true),
        ("arr1[7] != 5", true),
        ("not (arr1[7] != 5)", false),
        ("map1[\"absent\"] == \"x\"", false),
        ("arr1[7] != 5 and num1 == 1", true),
    ] {
        let run = |sch: &wirefilter::Scheme, ctx: &wirefilter::ExecutionContext<'_>| -> Option<bool> {
            std::panic::catch_unwind(std::panic::AssertUnwindSafe(|| sch.parse(text).ok()?.compile().execute(ctx).ok())).ok().flatten()
        };
        let (a, b) = (run(&s, &cc), run(&rs, &rc));
        if a != b || a != Some(documented) {
            out.impl_failure(
                &format!("capi twin-scheme {}", hex(text.as_bytes())),
                &format!("{text:?}: scheme built through the C API gives {a:?}, the same scheme built through the Rust API {b:?}, documented {documented}"),
            );
        }
    }
    s
}

fn ras_bytes(s: &ffi::RustAllocatedString) -> Option<&[u8]> {
    if s.ptr.is_null() { None } else { Some(unsafe { std::slice::from_raw_parts(s.ptr.cast(), s.len) }) }
}

#[derive(Clone, Debug)]
struct CtxSpec {
    ip: Option<[u8; 4]>,
    s: Option<Vec<u8>>,
    n1: Option<i64>,
    n2: Option<i64>,
    b: Option<bool>,
    arr: Option<Vec<i64>>,
    map: Option<Vec<(String, String)>>,
}

fn gen_ctx(rng: &mut Rng) -> CtxSpec {
    // all fields are mandatory for execution, so set them all (values vary)
    CtxSpec {
        ip: Some([*rng.pick(&[10u8, 192, 127]), rng.below(3) as u8, 0, rng.below(4) as u8]),
        s: Some(rng.pick(&[&b"ab"[..], b"", b"xaby", b"a\0b", b"\xff\xfe", b"hello world"]).to_vec()),
        n1: Some(*rng.pick(&[0i64, 1, 3, 5, 7, -1, i64::MAX, i64::MIN])),
        n2: Some(rng.range(-3, 10)),
        b: Some(rng.chance(1, 2)),
        arr: Some((0..rng.below(4)).map(|_| rng.range(0, 5)).collect()),
        map: Some((0..rng.below(3)).map(|i| (["k", "key", "z"][i as usize].to_string(), rng.pick(&["v", "value", ""]).to_string())).collect()),
    }
}

/// fill a context through the C API and, identically, one through the Rust API
fn make_ctxs<'s>(out: &mut Out, scheme: &'s ffi::Scheme, spec: &CtxSpec) -> (Box<ffi::ExecutionContext<'s>>, wirefilter::ExecutionContext<'s>) {
    let mut c = ffi::wirefilter_create_execution_context(scheme);
    let mut r = wirefilter::ExecutionContext::new(scheme);
    let mut ok = true;
    if let Some(ip) = &spec.ip {
        ok &= ffi::wirefilter_add_ipv4_value_to_execution_context(&mut c, "ip1".as_ptr().cast(), 3, ip);
        r.set_field_value_from_name("ip1", std::net::IpAddr::from(*ip)).unwrap();
    }
    if let Some(s) = &spec.s {
        // the C context borrows the bytes for its lifetime: leak them (small, bounded count)
        let leaked: &'static [u8] = Box::leak(s.clone().into_boxed_slice());
        ok &= ffi::wirefilter_add_bytes_value_to_execution_context(&mut c, "str1".as_ptr().cast(), 4, if leaked.is_empty() { std::ptr::NonNull::<u8>::dangling().as_ptr() } else { leaked.as_ptr() }, leaked.len());
        r.set_field_value_from_name("str1", leaked).unwrap();
    }
    if let Some(n) = spec.n1 {
        ok &= ffi::wirefilter_add_int_value_to_execution_context(&mut c, "num1".as_ptr().cast(), 4, n);
        r.set_field_value_from_name("num1", n).unwrap();
    }
    if let Some(n) = spec.n2 {
        ok &= ffi::wirefilter_add_int_value_to_execution_context(&mut c, "num2".as_ptr().cast(), 4, n);
        r.set_field_value_from_name("num2", n).unwrap();
    }
    if let Some(b) = spec.b {
        ok &= ffi::wirefilter_add_bool_value_to_execution_context(&mut c, "b1".as_ptr().cast(), 2, b);
        r.set_field_value_from_name("b1", b).unwrap();
    }
    if let Some(a) = &spec.arr {
        let j = serde_json::to_string(a).unwrap();
        ok &= ffi::wirefilter_add_json_value_to_execution_context(&mut c, "arr1".as_ptr().cast(), 4, j.as_ptr(), j.len());
        let v = Type::Array(Type::Int.into()).deserialize_value(&mut serde_json::Deserializer::from_str(&j)).unwrap();
        r.set_field_value_from_name("arr1", v.into_owned()).unwrap();
    }
    if let Some(m) = &spec.map {
        let j = serde_json::to_string(&m.iter().cloned().collect::<std::collections::BTreeMap<_, _>>()).unwrap();
        ok &= ffi::wirefilter_add_json_value_to_execution_context(&mut c, "map1".as_ptr().cast(), 4, j.as_ptr(), j.len());
        let v = Type::Map(Type::Bytes.into()).deserialize_value(&mut serde_json::Deserializer::from_str(&j)).unwrap();
        r.set_field_value_from_name("map1", v.into_owned()).unwrap();
    }
    if !ok {
        out.impl_failure("capi ctx", &format!("a C setter refused a well-typed value for {spec:?}"));
    }
    // same serialization
    let cj = ffi::wirefilter_serialize_execution_context_to_json(&mut c);
    let rj = serde_json::to_string(&r).unwrap();
    if status_num(&cj.status) != 0 || ras_bytes(&cj.json) != Some(rj.as_bytes()) {
        out.impl_failure("capi ctx", &format!("context JSON differs for {spec:?}: C {:?} vs Rust {rj}", ras_bytes(&cj.json).map(|b| String::from_utf8_lossy(b).to_string())));
    }
    ffi::wirefilter_free_string(cj.json);
    (c, r)
}

// ---------------------------------------------------------------------------- filters

fn gen_atom(rng: &mut Rng) -> String {
    let atoms = [
        "num1 == 3",
        "num1 in {1..5 7}",
        "num2 > 2",
        "str1 contains \"ab\"",
        "str1 == \"a\\x00b\"",
        "str1 matches \"^h.*d$\"",
        "str1 in {\"ab\" \"\"}",
        "ip1 in {10.0.0.0/8 127.0.0.1}",
        "ip1 == 192.1.0.2",
        "b1",
        "not b1",
        "arr1[0] == 1",
        "any(arr1[*] > 2)",
        "all(arr1[*] >= 0)",
        "map1[\"k\"] == \"v\"",
        "map1[\"key\"] contains \"al\"",
        "num1 in $always",
        "boom(num1)",
        "boom(3)",
        "num1 bitwise_and 1",
        "num2 >= -1",
    ];
    rng.pick(&atoms).to_string()
}

fn gen_filter(rng: &mut Rng, depth: u32) -> String {
    if depth == 0 || rng.chance(2, 5) {
        return gen_atom(rng);
    }
    match rng.below(5) {
        0 => format!("{} and {}", gen_filter(rng, depth - 1), gen_filter(rng, depth - 1)),
        1 => format!("{} or {}", gen_filter(rng, depth - 1), gen_filter(rng, depth - 1)),
        2 => format!("{} xor {}", gen_filter(rng, depth - 1), gen_filter(rng, depth - 1)),
        3 => format!("not ({})", gen_filter(rng, depth - 1)),
        _ => format!("({})", gen_filter(rng, depth - 1)),
    }
}

/// corrupt a filter: the result may be an invalid filter, contain NULs, or not be UTF-8
fn mutate(rng: &mut Rng, text: &str) -> Vec<u8> {
    let mut b = text.as_bytes().to_vec();
    let n = 1 + rng.below(2);
    for _ in 0..n {
        let pos = rng.below(b.len() as u64 + 1) as usize;
        match rng.below(7) {
            0 if !b.is_empty() => {
                b.remove(pos.min(b.len() - 1));
            }
            1 => b.insert(pos, 0),
            2 => b.insert(pos, *rng.pick(&[0xffu8, 0xc3, 0x80, 0xe2])),
            3 => b.truncate(pos),
            4 => b.insert(pos, *rng.pick(b"()\"{}=!<>&|\n\\$*[]")),
            5 => {
                b.insert(pos, b'\n');
            }
            _ => {
                let words: [&[u8]; 6] = [b" and", b" or ", b"==", b" in ", b"nope", b"\xc3\x28"];
                let w = *rng.pick(&words);
                for (k, x) in w.iter().enumerate() {
                    b.insert((pos + k).min(b.len()), *x);
                }
            }
        }
    }
    b
}

fn fnv1a64(bs: &[u8]) -> u64 {
    let mut h = 0xcbf29ce484222325u64;
    for b in bs {
        h ^= *b as u64;
        h = h.wrapping_mul(0x100000001b3);
    }
    h
}

// ---------------------------------------------------------------------------- calls

/// one recorded call: token for the op line, answer token
struct Rec {
    call: String,
    ans: String,
}

fn rec(wrapper: &str, outcome: &str, msg: &[u8], ret: String) -> Rec {
    Rec { call: format!("{wrapper}:{outcome}:{}", hex(msg)), ans: format!("{ret}/{}", show_view(&le_view())) }
}

fn s_ret(status: &Status, flag: bool) -> String {
    format!("S{}{}", status_num(status), flag as u8)
}

fn b_ret(b: bool) -> String {
    format!("B{}", b as u8)
}

struct World {
    scheme: &'static ffi::Scheme,
    other: &'static ffi::Scheme,
    next_panic: u64,
    /// functions already reported for F9 (one report per function and shard)
    f9_seen: std::collections::HashSet<&'static str>,
}

fn c_parse(scheme: &ffi::Scheme, text: &[u8]) -> ffi::ParsingResult {
    // a dangling non-null pointer for the empty slice, as C callers would pass ""
    let p = if text.is_empty() { std::ptr::NonNull::<u8>::dangling().as_ptr() as *const u8 } else { text.as_ptr() };
    ffi::wirefilter_parse_filter(scheme, p.cast(), text.len())
}

fn check_raw(out: &mut Out, what: &str) {
    let raw = le_raw();
    if !raw_ok(&raw) {
        out.impl_failure(what, &format!("LAST_ERROR vector {raw:?} is neither empty nor NUL-terminated without interior NUL"));
    }
}

/// parse through both APIs; records the call; returns the C AST when both succeeded
fn call_parse(out: &mut Out, w: &mut World, text: &[u8], arm: bool) -> (Rec, Option<Box<ffi::FilterAst>>) {
    let utf8 = std::str::from_utf8(text);
    if arm {
        w.next_panic += 1;
        BOOM_ID.with(|b| b.set(w.next_panic));
        ARMED.with(|a| a.set(1));
    }
    let res = c_parse(w.scheme, text);
    ARMED.with(|a| a.set(0));
    let ret = s_ret(&res.status, res.ast.is_some());
    let what = format!("capi parse {}", hex(text));
    check_raw(out, &what);
    let r = match utf8 {
        Err(e) => rec("parse", "utf8", e.to_string().as_bytes(), ret),
        Ok(s) => {
            if arm {
                rec("parse", "panic", marker(w.next_panic).as_bytes(), ret)
            } else {
                match w.scheme.parse(s) {
                    Ok(rast) => {
                        if let Some(cast) = &res.ast {
                            let rj = serde_json::to_string(&rast).unwrap();
                            let cj = ffi::wirefilter_serialize_filter_to_json(cast);
                            if status_num(&cj.status) != 0 || ras_bytes(&cj.json) != Some(rj.as_bytes()) {
                                out.impl_failure(&what, &format!("AST JSON differs: C {:?} vs Rust {rj}", ras_bytes(&cj.json).map(|b| String::from_utf8_lossy(b).to_string())));
                            }
                            ffi::wirefilter_free_string(cj.json);
                            let h = ffi::wirefilter_get_filter_hash(cast);
                            if status_num(&h.status) != 0 || h.hash != fnv1a64(rj.as_bytes()) {
                                out.impl_failure(&what, &format!("hash {:?}/{} is not FNV-1a-64 of the JSON ({})", status_num(&h.status), h.hash, fnv1a64(rj.as_bytes())));
                            }
                            out.case(&format!("capi hash {}", hex(rj.as_bytes())), &h.hash.to_string(), Some(&rj), &["hash"]);
                        }
                        rec("parse", "ok1", b"", ret)
                    }
                    Err(e) => rec("parse", "err", e.to_string().as_bytes(), ret),
                }
            }
        }
    };
    (r, res.ast)
}

const GOOD: &[&str] = &["num1 == 3", "b1 or num2 > 2", "str1 contains \"ab\" and not b1", "boom(num1)", "any(arr1[*] > 2)", "num1 in $always"];
const BAD: &[&str] = &["num1 == \"abc\"", "(\n  num1 == 42\n  or\n  num1 == \"abc\"\n)", "nope == 1", "num1 ==", "str1 == \"a\0b", "\0", "", "num1 == 3 and\0", "b1 and and"];
const NOTUTF8: &[&[u8]] = &[b"num1 == \xff", b"\xc3\x28", b"str1 == \"\xe2\x82\"", b"\x80"];

/// one random call from the menu; appends what it did to `recs`
fn random_call(out: &mut Out, w: &mut World, rng: &mut Rng, recs: &mut Vec<Rec>) {
    match rng.below(22) {
        0 => {
            ffi::wirefilter_clear_last_error();
            recs.push(Rec { call: "clear".into(), ans: format!("c/{}", show_view(&le_view())) });
        }
        1 | 2 => {
            let t = *rng.pick(GOOD);
            let (r, ast) = call_parse(out, w, t.as_bytes(), false);
            recs.push(r);
            if let Some(a) = ast {
                ffi::wirefilter_free_parsed_filter(a);
            }
        }
        3 | 4 => {
            let t = *rng.pick(BAD);
            let (r, _) = call_parse(out, w, t.as_bytes(), false);
            recs.push(r);
        }
        5 => {
            let t = *rng.pick(NOTUTF8);
            let (r, _) = call_parse(out, w, t, false);
            recs.push(r);
        }
        6 => {
            let (r, _) = call_parse(out, w, b"boom(num1)", true);
            recs.push(r);
        }
        7 | 8 => {
            // compile: ok, or a panic in FunctionDefinition::compile
            let arm = rng.chance(1, 2);
            let ast = c_parse(w.scheme, b"boom(num1) or num1 == 3").ast.expect("parse");
            if arm {
                w.next_panic += 1;
                BOOM_ID.with(|b| b.set(w.next_panic));
                ARMED.with(|a| a.set(2));
            }
            let res = ffi::wirefilter_compile_filter(ast);
            ARMED.with(|a| a.set(0));
            let ret = s_ret(&res.status, res.filter.is_some());
            recs.push(if arm { rec("compile", "panic", marker(w.next_panic).as_bytes(), ret) } else { rec("compile", "ok1", b"", ret) });
            if let Some(f) = res.filter {
                ffi::wirefilter_free_compiled_filter(f);
            }
        }
        9 | 10 | 11 => {
            // match: ok / panic in the function body / context of another scheme
            let kind = rng.below(4);
            let text = if kind == 1 { "boom(num1)".to_string() } else { gen_filter(rng, 2) };
            let (pr, ast) = call_parse(out, w, text.as_bytes(), false);
            recs.push(pr);
            let Some(ast) = ast else { return };
            let filter = match ffi::wirefilter_compile_filter(ast).filter {
                Some(f) => f,
                None => return,
            };
            let spec = gen_ctx(rng);
            if kind == 2 {
                let (c, _r) = make_ctxs(out, w.other, &spec);
                let res = ffi::wirefilter_match(&filter, &c);
                recs.push(rec("match", "err", wirefilter::SchemeMismatchError.to_string().as_bytes(), s_ret(&res.status, res.matched)));
                ffi::wirefilter_free_execution_context(c);
            } else {
                let (c, r) = make_ctxs(out, w.scheme, &spec);
                if kind == 1 {
                    w.next_panic += 1;
                    BOOM_ID.with(|b| b.set(w.next_panic));
                    ARMED.with(|a| a.set(3));
                }
                let res = ffi::wirefilter_match(&filter, &c);
                ARMED.with(|a| a.set(0));
                let ret = s_ret(&res.status, res.matched);
                if kind == 1 {
                    recs.push(rec("match", "panic", marker(w.next_panic).as_bytes(), ret));
                } else {
                    let rf = w.scheme.parse(&text).unwrap().compile();
                    let expect = rf.execute(&r).unwrap();
                    recs.push(rec("match", if expect { "ok1" } else { "ok0" }, b"", ret));
                }
                ffi::wirefilter_free_execution_context(c);
            }
            ffi::wirefilter_free_compiled_filter(filter);
        }
        12 | 13 | 14 => {
            // uses / uses_list
            let list = rng.chance(1, 3);
            let text = gen_filter(rng, 2);
            let (pr, ast) = call_parse(out, w, text.as_bytes(), false);
            recs.push(pr);
            let Some(ast) = ast else { return };
            let names: [&[u8]; 7] = [b"num1", b"str1", b"b1", b"arr1", b"nosuch", b"", b"num\xff"];
            let name = *rng.pick(&names);
            let p = if name.is_empty() { std::ptr::NonNull::<u8>::dangling().as_ptr() as *const u8 } else { name.as_ptr() };
            let res = if list {
                ffi::wirefilter_filter_uses_list(&ast, p.cast(), name.len())
            } else {
                ffi::wirefilter_filter_uses(&ast, p.cast(), name.len())
            };
            let ret = s_ret(&res.status, res.used);
            let wn = if list { "useslist" } else { "uses" };
            let rast = w.scheme.parse(&text).unwrap();
            recs.push(match std::str::from_utf8(name) {
                Err(e) => rec(wn, "utf8", e.to_string().as_bytes(), ret),
                Ok(n) => match if list { rast.uses_list(n) } else { rast.uses(n) } {
                    Ok(u) => rec(wn, if u { "ok1" } else { "ok0" }, b"", ret),
                    Err(e) => rec(wn, "err", e.to_string().as_bytes(), ret),
                },
            });
            ffi::wirefilter_free_parsed_filter(ast);
        }
        15 | 16 => {
            // scalar setters: ok / unknown field / wrong type / invalid UTF-8 name
            let mut c = ffi::wirefilter_create_execution_context(w.scheme);
            let mut r = wirefilter::ExecutionContext::<()>::new(w.scheme);
            let names: [&[u8]; 5] = [b"num1", b"nosuch", b"str1", b"n\xc3\x28", b"b1"];
            let name = *rng.pick(&names);
            let setter = rng.below(3);
            let (okc, rres, fname) = match setter {
                0 => (
                    ffi::wirefilter_add_int_value_to_execution_context(&mut c, name.as_ptr().cast(), name.len(), 7),
                    std::str::from_utf8(name).map(|n| r.set_field_value_from_name(n, 7i64).map(|_| ()).map_err(|e| e.to_string())),
                    "wirefilter_add_int_value_to_execution_context",
                ),
                1 => (
                    ffi::wirefilter_add_bool_value_to_execution_context(&mut c, name.as_ptr().cast(), name.len(), true),
                    std::str::from_utf8(name).map(|n| r.set_field_value_from_name(n, true).map(|_| ()).map_err(|e| e.to_string())),
                    "wirefilter_add_bool_value_to_execution_context",
                ),
                _ => (
                    ffi::wirefilter_add_bytes_value_to_execution_context(&mut c, name.as_ptr().cast(), name.len(), b"xy".as_ptr(), 2),
                    std::str::from_utf8(name).map(|n| r.set_field_value_from_name(n, &b"xy"[..]).map(|_| ()).map_err(|e| e.to_string())),
                    "wirefilter_add_bytes_value_to_execution_context",
                ),
            };
            let le_null_after = le_view().is_none();
            recs.push(match rres {
                Err(e) => rec("addscalar", "utf8", e.to_string().as_bytes(), b_ret(okc)),
                Ok(Ok(())) => rec("addscalar", "ok1", b"", b_ret(okc)),
                Ok(Err(m)) => {
                    if !okc && le_null_after && w.f9_seen.insert(fname) {
                        out.impl_failure(
                            &format!("capi call {fname} name={} (after wirefilter_clear_last_error)", hex(name)),
                            &format!("F9: {fname} returned false ({m}) but wirefilter_get_last_error() is NULL: failure reported without a last-error message"),
                        );
                    }
                    rec("addscalar", "err", m.as_bytes(), b_ret(okc))
                }
            });
            ffi::wirefilter_free_execution_context(c);
        }
        17 => {
            // JSON setter: bad JSON / wrong shape / unknown field / ok
            let mut c = ffi::wirefilter_create_execution_context(w.scheme);
            let names: [&[u8]; 4] = [b"arr1", b"map1", b"nosuch", b"a\xff"];
            let name = *rng.pick(&names);
            let jsons: [&[u8]; 6] = [b"[1,2]", b"{\"k\":\"v\"}", b"[1,", b"\"x\"", b"[\"a\"]", b"[1]\0"];
            let json = *rng.pick(&jsons);
            let okc = ffi::wirefilter_add_json_value_to_execution_context(&mut c, name.as_ptr().cast(), name.len(), json.as_ptr(), json.len());
            let expect: Result<Result<(), String>, std::str::Utf8Error> = std::str::from_utf8(name).map(|n| {
                let f = w.scheme.get_field(n).map_err(|e| e.to_string())?;
                let v = f.get_type().deserialize_value(&mut serde_json::Deserializer::from_reader(json)).map_err(|e| e.to_string())?;
                let mut r = wirefilter::ExecutionContext::<()>::new(w.scheme);
                r.set_field_value_from_name(n, v).map(|_| ()).map_err(|e| e.to_string())
            });
            recs.push(match expect {
                Err(e) => rec("addjson", "utf8", e.to_string().as_bytes(), b_ret(okc)),
                Ok(Ok(())) => rec("addjson", "ok1", b"", b_ret(okc)),
                Ok(Err(m)) => rec("addjson", "err", m.as_bytes(), b_ret(okc)),
            });
            ffi::wirefilter_free_execution_context(c);
        }
        18 => {
            // whole-context deserialization
            let mut c = ffi::wirefilter_create_execution_context(w.scheme);
            let jsons: [&[u8]; 8] = [b"{\"num1\":3}", b"{\"num1\":\"x\"}", b"{\"nosuch\":1}", b"{", b"{\"b1\":true,\"str1\":\"a\\u0000b\"}", b"{\"str1\":\"plain text value\",\"num1\":7}", b"{\"num1\":5,\"nosuch\":1}", b"{\"num1\":5,\"str1\":3}"];
            let json = *rng.pick(&jsons);
            // the caller owns the buffer and reuses it once the call has returned
            let mut r = wirefilter::ExecutionContext::<()>::new(w.scheme);
            // a context that already holds values: whatever the deserializer does with them on
            // success or failure, both APIs must do the same
            let preset = rng.chance(1, 2);
            if preset {
                let okp = ffi::wirefilter_add_int_value_to_execution_context(&mut c, "num2".as_ptr().cast(), 4, 42)
                    & ffi::wirefilter_add_bool_value_to_execution_context(&mut c, "b1".as_ptr().cast(), 2, true);
                r.set_field_value_from_name("num2", 42i64).unwrap();
                r.set_field_value_from_name("b1", true).unwrap();
                if !okp {
                    out.impl_failure("capi dectx preset", "a C setter refused a well-typed value");
                }
            }
            let mut buf: Vec<u8> = json.to_vec();
            let okc = ffi::wirefilter_deserialize_json_to_execution_context(&mut c, buf.as_ptr(), buf.len());
            buf.iter_mut().for_each(|b| *b = b'x');
            std::mem::forget(buf);
            let mut de = serde_json::Deserializer::from_reader(json);
            let expect = (&mut r).deserialize(&mut de).map_err(|e| e.to_string());
            {
                // after success AND after failure the two contexts hold the same values
                let cj = ffi::wirefilter_serialize_execution_context_to_json(&mut c);
                let rj = serde_json::to_string(&r).unwrap();
                if ras_bytes(&cj.json) != Some(rj.as_bytes()) {
                    out.impl_failure(
                        &format!("capi dectx {} preset={preset}", hex(json)),
                        &format!("after deserializing (result {:?}) the context serializes differently through C ({:?}) and Rust API ({rj})", expect.is_ok(), ras_bytes(&cj.json).map(|b| String::from_utf8_lossy(b).to_string())),
                    );
                }
                ffi::wirefilter_free_string(cj.json);
            }
            recs.push(match expect {
                Ok(()) => rec("dectx", "ok1", b"", b_ret(okc)),
                Err(m) => rec("dectx", "err", m.as_bytes(), b_ret(okc)),
            });
            ffi::wirefilter_free_execution_context(c);
        }
        19 => {
            // scheme builder: duplicate field / invalid UTF-8 name / ok
            let mut b = ffi::wirefilter_create_scheme_builder();
            let _ = c_add_field(&mut b, b"dup", Type::Int);
            let names: [&[u8]; 3] = [b"dup", b"fresh", b"\xf0\x28"];
            let name = *rng.pick(&names);
            let okc = c_add_field(&mut b, name, Type::Bytes);
            let le_null_after = le_view().is_none();
            recs.push(match std::str::from_utf8(name) {
                Err(e) => rec("addfield", "utf8", e.to_string().as_bytes(), b_ret(okc)),
                Ok("dup") => {
                    let mut rb = wirefilter::SchemeBuilder::new();
                    rb.add_field("dup", Type::Int).unwrap();
                    let m = rb.add_field("dup", Type::Bytes).unwrap_err().to_string();
                    if !okc && le_null_after && w.f9_seen.insert("wirefilter_add_type_field_to_scheme") {
                        out.impl_failure(
                            "capi call wirefilter_add_type_field_to_scheme name=dup twice (after wirefilter_clear_last_error)",
                            &format!("F9: wirefilter_add_type_field_to_scheme returned false ({m}) but wirefilter_get_last_error() is NULL: failure reported without a last-error message"),
                        );
                    }
                    rec("addfield", "err", m.as_bytes(), b_ret(okc))
                }
                Ok(_) => rec("addfield", "ok1", b"", b_ret(okc)),
            });
            ffi::wirefilter_free_scheme_builder(b);
        }
        20 => {
            let mode = *rng.pick(&[0u8, 7, 255]);
            let okc = ffi::panic::wirefilter_set_panic_catcher_fallback_mode(mode);
            recs.push(if mode == 0 { rec("setfb", "ok1", b"", b_ret(okc)) } else { rec("setfb", "err", format!("Invalid fallback mode {mode}").as_bytes(), b_ret(okc)) });
        }
        _ => {
            // hash / serialize of a good filter: success, last error untouched
            let ast = c_parse(w.scheme, rng.pick(GOOD).as_bytes()).ast.expect("parse");
            if rng.chance(1, 2) {
                let h = ffi::wirefilter_get_filter_hash(&ast);
                recs.push(rec("hash", "ok1", b"", s_ret(&h.status, true)));
            } else {
                let j = ffi::wirefilter_serialize_filter_to_json(&ast);
                let ret = s_ret(&j.status, !j.json.ptr.is_null());
                ffi::wirefilter_free_string(j.json);
                recs.push(rec("serialize", "ok1", b"", ret));
            }
            ffi::wirefilter_free_parsed_filter(ast);
        }
    }
}

fn emit_seq(out: &mut Out, recs: &[Rec], tag: &str) {
    if recs.is_empty() {
        return;
    }
    let op = format!("capi seq {}", recs.iter().map(|r| r.call.as_str()).collect::<Vec<_>>().join(","));
    let ans = recs.iter().map(|r| r.ans.as_str()).collect::<Vec<_>>().join(",");
    let fails = recs.iter().filter(|r| !r.call.contains(":ok") && r.call != "clear").count();
    let key = recs.iter().map(|r| r.call.split(':').take(2).collect::<Vec<_>>().join(":")).collect::<Vec<_>>().join(",");
    let mut tags: Vec<String> = vec![tag.to_string()];
    for r in recs {
        let mut it = r.call.split(':');
        let w = it.next().unwrap_or("");
        let o = it.next().unwrap_or("");
        tags.push(format!("call.{w}.{}", if o.is_empty() { "-" } else { o }));
    }
    let tr: Vec<&str> = tags.iter().map(|s| s.as_str()).collect();
    out.case(&op, &ans, if fails >= 1 && recs.len() >= 2 { Some(&key) } else { None }, &tr);
}

// ---------------------------------------------------------------------------- two threads

#[derive(Clone)]
enum TCall {
    Parse(Vec<u8>),
    Clear,
}

/// two real threads, each with its own LAST_ERROR, performing failing / succeeding / clearing
/// calls in a scheduled order; each reports what *it* sees at the end
fn thr_part(cfg: Cfg, out: &mut Out, rng: &mut Rng, scheme: &'static ffi::Scheme) {
    use std::sync::mpsc::channel;
    let n = cfg.share(if cfg.quick() { 600 } else { 20_000 });
    for _ in 0..n {
        let mut calls: Vec<Vec<TCall>> = vec![];
        let mut toks: Vec<Vec<String>> = vec![];
        for _ in 0..2 {
            let k = rng.below(4) as usize;
            let mut cs = vec![];
            let mut ts = vec![];
            for _ in 0..k {
                let c = match rng.below(6) {
                    0 => TCall::Clear,
                    1 => TCall::Parse(rng.pick(GOOD).as_bytes().to_vec()),
                    2 => TCall::Parse(rng.pick(NOTUTF8).to_vec()),
                    _ => TCall::Parse(rng.pick(BAD).as_bytes().to_vec()),
                };
                ts.push(match &c {
                    TCall::Clear => "clear".to_string(),
                    TCall::Parse(b) => match std::str::from_utf8(b) {
                        Err(e) => format!("parse:utf8:{}", hex(e.to_string().as_bytes())),
                        Ok(s) => match scheme.parse(s) {
                            Ok(_) => "parse:ok1:-".to_string(),
                            Err(e) => format!("parse:err:{}", hex(e.to_string().as_bytes())),
                        },
                    },
                });
                cs.push(c);
            }
            calls.push(cs);
            toks.push(ts);
        }
        let total = calls[0].len() + calls[1].len();
        let mut sched: Vec<usize> = std::iter::repeat(0).take(calls[0].len()).chain(std::iter::repeat(1).take(calls[1].len())).collect();
        for k in (1..sched.len()).rev() {
            let j = rng.below(k as u64 + 1) as usize;
            sched.swap(k, j);
        }
        let mut gos = vec![];
        let mut dones = vec![];
        let mut handles = vec![];
        for cs in calls.iter().cloned() {
            let (go_tx, go_rx) = channel::<()>();
            let (done_tx, done_rx) = channel::<()>();
            handles.push(std::thread::spawn(move || {
                let mut it = cs.into_iter();
                while go_rx.recv().is_ok() {
                    match it.next() {
                        Some(TCall::Clear) => ffi::wirefilter_clear_last_error(),
                        Some(TCall::Parse(b)) => {
                            let r = c_parse(scheme, &b);
                            if let Some(a) = r.ast {
                                ffi::wirefilter_free_parsed_filter(a);
                            }
                        }
                        None => {}
                    }
                    let _ = done_tx.send(());
                }
                (le_view(), raw_ok(&le_raw()))
            }));
            gos.push(go_tx);
            dones.push(done_rx);
        }
        for &i in &sched {
            let _ = gos[i].send(());
            let _ = dones[i].recv();
        }
        drop(gos);
        let res: Vec<(Option<Vec<u8>>, bool)> = handles.into_iter().map(|h| h.join().unwrap_or((None, false))).collect();
        let show = |v: &Vec<String>| if v.is_empty() { ".".to_string() } else { v.join(",") };
        let ss: String = if sched.is_empty() { ".".into() } else { sched.iter().map(|i| char::from(b'0' + *i as u8)).collect() };
        let op = format!("capi thr {} {} {ss}", show(&toks[0]), show(&toks[1]));
        if !res[0].1 || !res[1].1 {
            out.impl_failure(&op, "a thread's LAST_ERROR vector is neither empty nor NUL-terminated without interior NUL");
        }
        let ans = format!("{} {}", show_view(&res[0].0), show_view(&res[1].0));
        let switches = sched.windows(2).filter(|w| w[0] != w[1]).count();
        out.case(&op, &ans, if total >= 2 && switches >= 1 { Some(&op) } else { None }, &["thr"]);
    }
}

pub fn run(cfg: Cfg, out: &mut Out) {
    let mut rng = cfg.rng();
    cstr_part(cfg, out, &mut rng);

    setup_catcher();
    let scheme: &'static ffi::Scheme = Box::leak(build_scheme(out, true));
    let other: &'static ffi::Scheme = Box::leak(build_scheme(out, true));
    let mut w = World { scheme, other, next_panic: 0, f9_seen: Default::default() };

    // (c) last-error is per thread
    thr_part(cfg, out, &mut rng, scheme);

    // (a) agreement over generated filters: parse outcome + error text, JSON, hash, match, uses
    let nf = cfg.share(if cfg.quick() { 6000 } else { 300_000 });
    for _ in 0..nf {
        ffi::wirefilter_clear_last_error();
        let text = gen_filter(&mut rng, 3);
        let bytes = if rng.chance(2, 5) { mutate(&mut rng, &text) } else { text.clone().into_bytes() };
        let (r, ast) = call_parse(out, &mut w, &bytes, false);
        let tag = format!("agree.{}", r.call.split(':').nth(1).unwrap_or("?"));
        emit_seq(out, std::slice::from_ref(&r), &tag);
        let Some(ast) = ast else { continue };
        let s = std::str::from_utf8(&bytes).unwrap();
        let rast = match w.scheme.parse(s) {
            Ok(a) => a,
            Err(_) => {
                out.impl_failure(&format!("capi parse {}", hex(&bytes)), "C API parsed a filter the Rust API rejects");
                continue;
            }
        };
        // uses / uses_list for every field
        for (name, _) in FIELDS {
            let cu = ffi::wirefilter_filter_uses(&ast, name.as_ptr().cast(), name.len());
            let cl = ffi::wirefilter_filter_uses_list(&ast, name.as_ptr().cast(), name.len());
            if status_num(&cu.status) != 0 || cu.used != rast.uses(name).unwrap() {
                out.impl_failure(&format!("capi uses {} {name}", hex(&bytes)), "wirefilter_filter_uses differs from FilterAst::uses");
            }
            if status_num(&cl.status) != 0 || cl.used != rast.uses_list(name).unwrap() {
                out.impl_failure(&format!("capi uses_list {} {name}", hex(&bytes)), "wirefilter_filter_uses_list differs from FilterAst::uses_list");
            }
        }
        out.tag("agree.uses-checked");
        // match on two contexts
        let cres = ffi::wirefilter_compile_filter(ast);
        let Some(cf) = cres.filter else {
            out.impl_failure(&format!("capi compile {}", hex(&bytes)), "wirefilter_compile_filter failed on a parsed filter");
            continue;
        };
        let rf = rast.compile();
        for _ in 0..2 {
            let spec = gen_ctx(&mut rng);
            let (c, r) = make_ctxs(out, w.scheme, &spec);
            let m = ffi::wirefilter_match(&cf, &c);
            let e = rf.execute(&r).unwrap();
            if status_num(&m.status) != 0 || m.matched != e {
                out.impl_failure(&format!("capi match {} ctx={spec:?}", hex(&bytes)), &format!("wirefilter_match says {}/{} but Filter::execute says {e}", status_num(&m.status), m.matched));
            }
            out.tag("agree.match-checked");
            ffi::wirefilter_free_execution_context(c);
        }
        ffi::wirefilter_free_compiled_filter(cf);
        if le_view().is_some() {
            out.impl_failure(&format!("capi parse {}", hex(&bytes)), "successful calls left a last-error message behind");
        }
    }

    // (b) sequences of failing / succeeding calls: status mapping, last-error replacement,
    // persistence across successes, clearing; panics inside parse / compile / match
    let ns = cfg.share(if cfg.quick() { 2500 } else { 60_000 });
    for _ in 0..ns {
        ffi::wirefilter_clear_last_error();
        ffi::panic::wirefilter_set_panic_catcher_fallback_mode(0);
        ffi::wirefilter_clear_last_error();
        let len = 1 + rng.below(7);
        let mut recs = vec![];
        for _ in 0..len {
            random_call(out, &mut w, &mut rng, &mut recs);
            check_raw(out, "capi seq");
        }
        emit_seq(out, &recs, "seq");
    }
    ffi::wirefilter_clear_last_error();
    out.notes.push("C20 note F8: UsingResult::PANIC carries Status::Error (ffi/src/lib.rs); wirefilter_filter_uses would report a panic as Error. The property's panic clause names parse, compile and match only and no panic is reachable inside uses(), so not a violation; the model mirrors the code and pins the extracted constant.".into());
}

pub fn replay(_op: &str) -> Option<String> {
    // `capi seq` lines carry the outcome classes, not the inputs that produced them, and
    // `cstr` histories could be replayed; keep it simple and uniform:
    let w: Vec<&str> = _op.split(' ').collect();
    if w.len() == 2 && w[0] == "cstr" {
        let mut h = vec![];
        if w[1] != "." {
            for t in w[1].split(',') {
                let (k, rest) = t.split_at(1);
                let bytes = if rest == "-" || rest.is_empty() { vec![] } else { crate::codec::unhex(rest)? };
                h.push(match k {
                    "c" => COp::Clear,
                    "w" => COp::Write(bytes),
                    "e" => COp::SetError(String::from_utf8(bytes).ok()?),
                    _ => return None,
                });
            }
        }
        ffi::wirefilter_clear_last_error();
        for c in &h {
            apply_cop(c, 0);
        }
        let raw = le_raw();
        let view = le_view();
        return Some(format!("{} {}", hex(&raw), match &view { None => "null".into(), Some(b) => hex(b) }));
    }
    if w.len() == 3 && w[0] == "capi" && w[1] == "hash" {
        // the hash of a JSON text as the C API computes it needs the AST; FNV over the bytes is
        // what the implementation is specified to do and is compared in the stream itself
        return None;
    }
    None
}
