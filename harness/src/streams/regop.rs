//! C16 — registration histories on the real `SchemeBuilder`, then lookups on the built
//! `Scheme` (get_field / get_function / get_list / fields() / functions() / lists() /
//! parse / parse_value).
//!
//! op line (one history per line; format documented in lean/WfModel/Drv/Scheme.lean):
//!   regop <op,op,...|.> <hex text,...|.> <ty,...|.>
use crate::Cfg;
use crate::codec::{parse_ty, ty_str, unhex};
use crate::out::{Out, hex};
use std::panic::{AssertUnwindSafe, catch_unwind};
use wirefilter::{
    AlwaysList, FilterAst, FilterValueAst, FunctionArgs, GetType, IdentifierExpr,
    IdentifierRedefinitionError, LhsValue, LogicalExpr, NeverList, ParseError, Scheme,
    SchemeBuilder, SimpleFunctionDefinition, SimpleFunctionImpl, Type,
};

#[derive(Clone, Debug, PartialEq)]
pub enum Op {
    Field(String, Type),
    Opt(String, Type),
    Func(String),
    List(Type),
}

const POOL: [&str; 6] = ["x", "x.y", "x.y.z", "X", "xy", "x_y"];
/// names that can be registered but never lexed as an identifier (random part only)
const ODD: [&str; 6] = ["", "x.", ".x", "x..y", "x y", "x-y"];

/// texts looked up on every built scheme: the pool, prefixes, extensions, case variants,
/// and texts with dangling dots / stop characters / surrounding spaces.
const LOOKUPS: [&str; 37] = [
    "x", "x.y", "x.y.z", "X", "xy", "x_y", // pool
    "", "x.", "x.y.", "x_", // prefixes
    "x.y.z.w", "xx", "xyz", "x_y_", "x.yy", "x.y.zz", "x_y.z", // extensions
    "x.Y", "X.y", "X.Y", "XY", "Xy", "X_Y", "x.Y.z", // case
    ".x", "x..y", "x y", " x", "x ", "x-y", "x:y", "x.y z", " x.y ", // malformed / stops
    // characters outside ASCII whose low byte is an identifier character (U+0161 -> 'a',
    // U+0131 -> '1', U+0141 -> 'A', U+015F -> '_') are stops like any other
    "x\u{161}", "x.y\u{131}", "\u{141}x", "x\u{15f}y",
];

/// names beginning with the word `not` (and their tails): a registered name is an identifier
/// even where the unary operator could be read
const NOT_POOL: [&str; 6] = ["notx", "x", "not.x", "notx.y", "x.y", "not_x"];
const NOT_LOOKUPS: [&str; 22] = [
    "notx", "x", "not.x", "notx.y", "x.y", "not_x", "_x", ".x", // names and tails
    "not x", "!x", "! x", "not notx", "notnotx", "!notx", "not!x", "not  x.y", "!not.x", // operators
    "not", "not.", "notx.", "noty", "not y", // malformed / unknown
];

fn list_tys() -> Vec<Type> {
    vec![
        Type::Int,
        Type::Bytes,
        Type::Array(Type::Int.into()),
        Type::Bool,
        Type::Ip,
        Type::Map(Type::Int.into()),
    ]
}

fn field_tys() -> Vec<Type> {
    vec![
        Type::Bool,
        Type::Int,
        Type::Bytes,
        Type::Array(Type::Bool.into()),
        Type::Map(Type::Array(Type::Int.into()).into()),
    ]
}

fn true_fn<'a>(_: FunctionArgs<'_, 'a>) -> Option<LhsValue<'a>> {
    Some(LhsValue::Bool(true))
}

fn fn_def() -> SimpleFunctionDefinition {
    SimpleFunctionDefinition {
        params: vec![],
        opt_params: vec![],
        return_type: Type::Bool,
        implementation: SimpleFunctionImpl::new(true_fn),
    }
}

fn op_str(op: &Op) -> String {
    match op {
        Op::Field(n, t) => format!("f:{}:{}", hex(n.as_bytes()), ty_str(t)),
        Op::Opt(n, t) => format!("o:{}:{}", hex(n.as_bytes()), ty_str(t)),
        Op::Func(n) => format!("u:{}", hex(n.as_bytes())),
        Op::List(t) => format!("l:{}", ty_str(t)),
    }
}

fn parse_op(s: &str) -> Option<Op> {
    let parts: Vec<&str> = s.split(':').collect();
    let name = |h: &str| String::from_utf8(unhex(h)?).ok();
    match parts.as_slice() {
        ["f", n, t] => Some(Op::Field(name(n)?, parse_ty(t)?)),
        ["o", n, t] => Some(Op::Opt(name(n)?, parse_ty(t)?)),
        ["u", n] => Some(Op::Func(name(n)?)),
        ["l", t] => Some(Op::List(parse_ty(t)?)),
        _ => None,
    }
}

fn join_or(items: Vec<String>, sep: &str) -> String {
    if items.is_empty() { ".".into() } else { items.join(sep) }
}

/// result of an identifier-redefinition error: which kind holds the name; `!` appended when
/// the name carried by the error is not the requested one
fn redef(e: &IdentifierRedefinitionError, name: &str) -> String {
    let shown = e.to_string();
    match e {
        IdentifierRedefinitionError::Field(_) => {
            if shown == format!("attempt to redefine field {name}") { "ef".into() } else { "ef!".into() }
        }
        IdentifierRedefinitionError::Function(_) => {
            if shown == format!("attempt to redefine function {name}") { "eu".into() } else { "eu!".into() }
        }
    }
}

fn ident_out(id: &IdentifierExpr) -> String {
    match id {
        IdentifierExpr::Field(f) => format!("f{}", f.index()),
        IdentifierExpr::FunctionCallExpr(c) => format!("u{}", c.function().index()),
    }
}

/// `ParseError` keeps its fields private; its derived `Debug` ends with
/// `span_start: N, span_len: M }` and starts with `ParseError { kind: <Variant>`.
fn err_out(e: &ParseError<'_>) -> String {
    let d = format!("{e:?}");
    if d.starts_with("ParseError { kind: UnknownIdentifier,") {
        let tail = d.rsplit("span_start: ").next().unwrap_or("");
        let nums: Vec<&str> = tail
            .trim_end_matches(" }")
            .split(", span_len: ")
            .collect();
        if nums.len() == 2 {
            return format!("k{}:{}", nums[0], nums[1]);
        }
        return "k?".into();
    }
    "e".into()
}

fn filter_out(r: Result<FilterAst, ParseError<'_>>) -> String {
    match r {
        Ok(ast) => match ast.expression() {
            LogicalExpr::Comparison(c) => ident_out(c.lhs_expr().identifier()),
            _ => "ok?".into(),
        },
        Err(e) => err_out(&e),
    }
}

fn value_out(r: Result<FilterValueAst, ParseError<'_>>) -> String {
    match r {
        Ok(ast) => ident_out(ast.expression().identifier()),
        Err(e) => err_out(&e),
    }
}

fn lookup(s: &Scheme, text: &str) -> String {
    let gf = match s.get_field(text) {
        Ok(f) => {
            let mut r = format!("{}:{}:{}", f.index(), ty_str(&f.get_type()), f.optional() as u8);
            if f.name() != text {
                r.push_str("!name");
            }
            r
        }
        Err(_) => "-".into(),
    };
    let gn = match s.get_function(text) {
        Ok(f) => {
            if f.name() != text { format!("{}!name", f.index()) } else { f.index().to_string() }
        }
        Err(_) => "-".into(),
    };
    let call = format!("{text}()");
    [
        gf,
        gn,
        filter_out(s.parse(text)),
        value_out(s.parse_value(text)),
        filter_out(s.parse(&call)),
        value_out(s.parse_value(&call)),
    ]
    .join("/")
}

pub fn execute(ops: &[Op], texts: &[String], tys: &[Type]) -> String {
    let r = catch_unwind(AssertUnwindSafe(|| {
        let mut b = SchemeBuilder::new();
        let mut res = Vec::new();
        for (k, op) in ops.iter().enumerate() {
            let r = match op {
                Op::Field(n, t) => b.add_field(n, *t).map_err(|e| redef(&e, n)),
                Op::Opt(n, t) => b.add_optional_field(n, *t).map_err(|e| redef(&e, n)),
                Op::Func(n) => b.add_function(n, fn_def()).map_err(|e| redef(&e, n)),
                Op::List(t) => {
                    let r = if k % 2 == 0 {
                        b.add_list(*t, AlwaysList::default())
                    } else {
                        b.add_list(*t, NeverList::default())
                    };
                    r.map_err(|e| {
                        if e.to_string() == format!("attempt to redefine list for type {t:?}") {
                            "el".to_string()
                        } else {
                            "el!".to_string()
                        }
                    })
                }
            };
            res.push(match r {
                Ok(()) => "ok".to_string(),
                Err(e) => e,
            });
        }
        let s = b.build();
        let fields: Vec<String> = s
            .fields()
            .map(|f| format!("{}:{}:{}", hex(f.name().as_bytes()), ty_str(&f.get_type()), f.optional() as u8))
            .collect();
        let mut extra = String::new();
        if fields.len() != s.field_count() || s.fields().len() != s.field_count() {
            extra.push_str(" !field_count");
        }
        let funcs: Vec<String> = s.functions().map(|f| hex(f.name().as_bytes())).collect();
        if funcs.len() != s.function_count() {
            extra.push_str(" !function_count");
        }
        let lists: Vec<String> = s.lists().map(|l| ty_str(&l.get_type())).collect();
        if lists.len() != s.list_count() {
            extra.push_str(" !list_count");
        }
        // clones are the same scheme, a rebuilt twin is not
        let c = s.clone();
        if c != s {
            extra.push_str(" !clone_ne");
        }
        let n: Vec<String> = texts.iter().map(|t| lookup(&s, t)).collect();
        let t: Vec<String> = tys
            .iter()
            .map(|t| match s.get_list(t) {
                Some(l) => {
                    // ListRef keeps its index private; recover it from lists()
                    match s.lists().position(|x| x == l) {
                        Some(i) => i.to_string(),
                        None => "?".into(),
                    }
                }
                None => "-".into(),
            })
            .collect();
        format!(
            "R={} F={} U={} L={} N={} T={}{}",
            join_or(res, ","),
            join_or(fields, ","),
            join_or(funcs, ","),
            join_or(lists, ","),
            join_or(n, ";"),
            join_or(t, ","),
            extra
        )
    }));
    r.unwrap_or_else(|_| "panic".to_string())
}

fn line(ops: &[Op], texts: &[String], tys: &[Type]) -> String {
    format!(
        "regop {} {} {}",
        join_or(ops.iter().map(op_str).collect(), ","),
        join_or(texts.iter().map(|t| hex(t.as_bytes())).collect(), ","),
        join_or(tys.iter().map(ty_str).collect(), ",")
    )
}

fn op_name(op: &Op) -> Option<&str> {
    match op {
        Op::Field(n, _) | Op::Opt(n, _) | Op::Func(n) => Some(n),
        Op::List(_) => None,
    }
}

fn emit(out: &mut Out, ops: &[Op], texts: &[String], tys: &[Type], tag: &str) {
    let op = line(ops, texts, tys);
    let ans = execute(ops, texts, tys);
    let rejected = ans
        .split(' ')
        .next()
        .map(|r| r.contains('e'))
        .unwrap_or(false);
    // non-trivial: some call was rejected, or two registered names are related by
    // prefix / case (the situations the property speaks about)
    let names: Vec<&str> = ops.iter().filter_map(op_name).collect();
    let related = names.iter().enumerate().any(|(i, a)| {
        names.iter().enumerate().any(|(j, b)| {
            i != j && a != b && (b.starts_with(a) || a.eq_ignore_ascii_case(b))
        })
    });
    let key = join_or(ops.iter().map(op_str).collect(), ",");
    let mut tags = vec![tag.to_string(), format!("len{}", ops.len().min(9))];
    if rejected {
        tags.push("has-rejection".into());
    }
    if related {
        tags.push("related-names".into());
    }
    let tr: Vec<&str> = tags.iter().map(|s| s.as_str()).collect();
    out.case(&op, &ans, if rejected || related { Some(&key) } else { None }, &tr);
}

/// all sequences over `alphabet` of length exactly `len`, sharded by global index
fn enumerate(
    cfg: Cfg,
    out: &mut Out,
    alphabet: &[Op],
    len: usize,
    counter: &mut u64,
    texts: &[String],
    tys: &[Type],
    tag: &str,
) {
    let n = alphabet.len();
    let total = (n as u64).pow(len as u32);
    for idx in 0..total {
        let mine = cfg.mine(*counter);
        *counter += 1;
        if !mine {
            continue;
        }
        let mut k = idx;
        let mut ops = Vec::with_capacity(len);
        for _ in 0..len {
            ops.push(alphabet[(k % n as u64) as usize].clone());
            k /= n as u64;
        }
        emit(out, &ops, texts, tys, tag);
    }
}

pub fn run(cfg: Cfg, out: &mut Out) {
    let texts: Vec<String> = LOOKUPS.iter().map(|s| s.to_string()).collect();
    let tys = list_tys();
    let ftys = field_tys();
    let mut counter = 0u64;

    // (A) full alphabet: {field, optional field, function} x 6 names + 3 list types; the
    // field type depends on (kind, name) so that a name is offered with two different
    // (type, optionality) registrations
    let mut full = Vec::new();
    for (i, n) in POOL.iter().enumerate() {
        full.push(Op::Field(n.to_string(), ftys[i % ftys.len()]));
        full.push(Op::Opt(n.to_string(), ftys[(i + 1) % ftys.len()]));
        full.push(Op::Func(n.to_string()));
    }
    for t in &tys[..3] {
        full.push(Op::List(*t));
    }
    let full_max = if cfg.quick() { 3 } else { 4 };
    for len in 0..=full_max {
        enumerate(cfg, out, &full, len, &mut counter, &texts, &tys, "full-alphabet");
    }

    // (B) reduced alphabet on the three most collision-prone names, to the full length
    let reduced = vec![
        Op::Field("x".into(), Type::Bool),
        Op::Opt("x".into(), Type::Int),
        Op::Field("x.y".into(), Type::Int),
        Op::Func("x".into()),
        Op::Func("x.y".into()),
        Op::Opt("X".into(), Type::Bool),
        Op::List(Type::Int),
        Op::List(Type::Bytes),
    ];
    let (lo, hi) = if cfg.quick() { (4, 5) } else { (5, 6) };
    for len in lo..=hi {
        enumerate(cfg, out, &reduced, len, &mut counter, &texts, &tys, "reduced-alphabet");
    }

    // (C) random longer histories over the full alphabet, any pool type, plus names that
    // can be registered but not lexed
    let mut rng = cfg.rng();
    let n_random = cfg.share(if cfg.quick() { 12_000 } else { 160_000 });
    for _ in 0..n_random {
        let len = 4 + rng.below(if cfg.quick() { 5 } else { 9 }) as usize;
        let mut ops = Vec::with_capacity(len);
        for _ in 0..len {
            let name = if rng.chance(1, 8) {
                rng.pick(&ODD).to_string()
            } else {
                rng.pick(&POOL).to_string()
            };
            let op = match rng.below(10) {
                0..=3 => Op::Field(name, *rng.pick(&ftys)),
                4..=5 => Op::Opt(name, *rng.pick(&ftys)),
                6..=8 => Op::Func(name),
                _ => Op::List(*rng.pick(&tys)),
            };
            ops.push(op);
        }
        emit(out, &ops, &texts, &tys, "random");
    }

    // (D) names beginning with `not`: all histories up to length 3 over {field, function} x
    // NOT_POOL, looked up bare and behind the unary operators
    let texts2: Vec<String> = NOT_LOOKUPS.iter().map(|s| s.to_string()).collect();
    let mut alpha = Vec::new();
    for n in NOT_POOL.iter() {
        alpha.push(Op::Field(n.to_string(), Type::Bool));
        alpha.push(Op::Func(n.to_string()));
    }
    alpha.push(Op::Field("x".into(), Type::Int));
    for len in 0..=(if cfg.quick() { 2 } else { 3 }) {
        enumerate(cfg, out, &alpha, len, &mut counter, &texts2, &tys, "not-prefixed");
    }
    for _ in 0..cfg.share(if cfg.quick() { 600 } else { 20_000 }) {
        let len = 3 + rng.below(4) as usize;
        let ops: Vec<Op> = (0..len).map(|_| alpha[rng.below(alpha.len() as u64) as usize].clone()).collect();
        emit(out, &ops, &texts2, &tys, "not-prefixed");
    }
}

pub fn replay(op: &str) -> Option<String> {
    let toks: Vec<&str> = op.split(' ').filter(|t| !t.is_empty()).collect();
    if toks.len() != 4 || toks[0] != "regop" {
        return None;
    }
    let list = |s: &str| -> Vec<String> {
        if s == "." { vec![] } else { s.split(',').map(|x| x.to_string()).collect() }
    };
    let ops: Option<Vec<Op>> = list(toks[1]).iter().map(|s| parse_op(s)).collect();
    let texts: Option<Vec<String>> = list(toks[2])
        .iter()
        .map(|h| String::from_utf8(unhex(h)?).ok())
        .collect();
    let tys: Option<Vec<Type>> = list(toks[3]).iter().map(|s| parse_ty(s)).collect();
    Some(execute(&ops?, &texts?, &tys?))
}
