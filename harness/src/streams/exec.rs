//! Streams `exec:<focus>` — parse -> compile -> execute of generated filters on generated
//! contexts, and `value` — value expressions.  C01 (scalar), C02 (containers), C03 (calls),
//! C17 (lists) use the same machinery with different generator focus.
use crate::Cfg;
use crate::codec::{ty_str, val_str};
use crate::core::{self, CtxSpec, SchemeSpec};
use crate::fgen::{self, Focus, G};
use crate::out::{Out, hex};

pub fn exec_text(spec: &SchemeSpec, scheme: &wirefilter::Scheme, ctx: &wirefilter::ExecutionContext<'_>, text: &str) -> String {
    let r = core::no_panic(|| {
        let ast = match spec.parser(scheme).parse(text) {
            Ok(a) => a,
            Err(_) => return "err".to_string(),
        };
        let f = ast.compile();
        match f.execute(ctx) {
            Ok(b) => b.to_string(),
            Err(_) => "exec-err".to_string(),
        }
    });
    r.unwrap_or_else(|| "panic".to_string())
}

pub fn value_text(spec: &SchemeSpec, scheme: &wirefilter::Scheme, ctx: &wirefilter::ExecutionContext<'_>, text: &str) -> String {
    let r = core::no_panic(|| {
        let ast = match spec.parser(scheme).parse_value(text) {
            Ok(a) => a,
            Err(_) => return "err".to_string(),
        };
        let f = ast.compile();
        match f.execute(ctx) {
            Ok(Ok(v)) => format!("ok {}", val_str(&v)),
            Ok(Err(t)) => format!("absent {}", ty_str(&t)),
            Err(_) => "exec-err".to_string(),
        }
    });
    r.unwrap_or_else(|| "panic".to_string())
}

fn focus_of(name: &str) -> Focus {
    match name {
        "scalar" => Focus::Scalar,
        "containers" => Focus::Containers,
        "calls" => Focus::Calls,
        "lists" => Focus::Lists,
        _ => Focus::All,
    }
}

pub fn run(focus_name: &str, cfg: Cfg, out: &mut Out) {
    core::silence_panics();
    let focus = focus_of(focus_name);
    let mut rng = cfg.rng();
    let n_schemes = if cfg.quick() { 3 } else { 12 };
    let n_filters = cfg.share(if cfg.quick() { 2400 } else { 160_000 }) / n_schemes;
    let n_ctx = if cfg.quick() { 6 } else { 10 };
    for _ in 0..n_schemes {
        let spec = fgen::rich_scheme(&mut rng, 128);
        let scheme = spec.build();
        out.case(&spec.op_line(), "ok", None, &["scheme"]);
        // a pool of contexts reused across filters (keeps op volume down)
        let ctxs: Vec<CtxSpec> = (0..24).map(|_| fgen::gen_ctx(&mut rng, &spec)).collect();
        let built: Vec<_> = ctxs.iter().map(|c| c.build(&spec, &scheme)).collect();
        let mut batch: Vec<(String, bool, Vec<&'static str>)> = Vec::new();
        for _ in 0..n_filters {
            let depth = *rng.pick(&[1u32, 2, 2, 3, 3, 4]);
            let mut g = G::new(&mut rng, &spec);
            g.focus = focus;
            g.allow_regex = false;
            if focus == Focus::Calls && g.rng.chance(1, 4) {
                let t = g.value_expr(depth);
                let st = g.stats.clone();
                batch.push((t, true, st));
            } else if focus == Focus::Containers && g.rng.chance(1, 5) {
                let t = g.value_expr(1);
                let st = g.stats.clone();
                batch.push((t, true, st));
            } else {
                let t = g.expr(false, depth);
                let st = g.stats.clone();
                batch.push((t, false, st));
            }
        }
        // iterate context-major so that `ctx` lines are emitted once per context
        let per_ctx = (batch.len() * n_ctx).div_ceil(ctxs.len());
        let mut results: Vec<Vec<(usize, String)>> = vec![Vec::new(); batch.len()];
        for (ci, c) in built.iter().enumerate() {
            for k in 0..per_ctx {
                let fi = (ci * per_ctx + k * 7 + ci) % batch.len();
                let (text, is_value, _) = &batch[fi];
                let ans = if *is_value {
                    value_text(&spec, &scheme, c, text)
                } else {
                    exec_text(&spec, &scheme, c, text)
                };
                results[fi].push((ci, ans));
            }
        }
        for (ci, c) in ctxs.iter().enumerate() {
            out.case(&c.op_line(), "ok", None, &["ctx"]);
            for (fi, (text, is_value, stats)) in batch.iter().enumerate() {
                for (rci, ans) in results[fi].iter() {
                    if *rci != ci {
                        continue;
                    }
                    let distinct_answers = results[fi].iter().map(|x| &x.1).collect::<std::collections::BTreeSet<_>>().len();
                    let nontrivial = distinct_answers >= 2 && ans != "err";
                    let op = format!("{} {}", if *is_value { "value" } else { "exec" }, hex(text.as_bytes()));
                    let key = format!("{text}#{ci}");
                    let mut tags: Vec<&str> = vec![if *is_value { "value" } else { "exec" }];
                    match ans.as_str() {
                        "err" => tags.push("ans.err"),
                        "true" => tags.push("ans.true"),
                        "false" => tags.push("ans.false"),
                        "panic" => tags.push("ans.panic"),
                        a if a.starts_with("absent") => tags.push("ans.absent"),
                        _ => tags.push("ans.value"),
                    }
                    for s in stats {
                        tags.push(s);
                    }
                    if text.contains("[*]") {
                        tags.push("has.mapeach");
                    }
                    if text.contains("any") || text.contains("all") {
                        tags.push("has.quantifier");
                    }
                    if text.contains('$') {
                        tags.push("has.inlist");
                    }
                    if text.contains(" in") || text.contains("\nin") {
                        tags.push("has.in");
                    }
                    out.case(&op, ans, if nontrivial { Some(&key) } else { None }, &tags);
                }
            }
        }
    }
}
