//! Streams `exec-<focus>` — parse -> compile -> execute of generated filters on generated
//! contexts, and value expressions.  C01 (scalar), C02 (containers), C03 (calls), C17 (lists)
//! use the same machinery with a different generator focus.  Lines are generated here and
//! executed on the real engine by `coreops::Core`.
use crate::Cfg;
use crate::core;
use crate::coreops::Core;
use crate::fgen::{self, Focus, G};
use crate::out::{Out, hex};

fn focus_of(name: &str) -> Focus {
    match name {
        "scalar" => Focus::Scalar,
        "containers" => Focus::Containers,
        "calls" => Focus::Calls,
        "lists" => Focus::Lists,
        _ => Focus::All,
    }
}

pub fn tags_for(text: &str, ans: &str, is_value: bool) -> Vec<&'static str> {
    let mut tags: Vec<&'static str> = vec![if is_value { "value" } else { "exec" }];
    match ans {
        "err" => tags.push("ans.err"),
        "true" => tags.push("ans.true"),
        "false" => tags.push("ans.false"),
        "panic" => tags.push("ans.panic"),
        a if a.starts_with("absent") => tags.push("ans.absent"),
        _ => tags.push("ans.value"),
    }
    if text.contains("[*]") || text.contains("*]") {
        tags.push("has.mapeach");
    }
    if text.contains("any") || text.contains("all") {
        tags.push("has.quantifier");
    }
    if text.contains('$') {
        tags.push("has.inlist");
    }
    if text.contains('(') {
        tags.push("has.paren_or_call");
    }
    if text.contains("not") || text.contains('!') {
        tags.push("has.not");
    }
    tags
}

pub fn run(focus_name: &str, cfg: Cfg, out: &mut Out) {
    core::silence_panics();
    let focus = focus_of(focus_name);
    let mut rng = cfg.rng();
    let n_schemes = if cfg.quick() { 3 } else { 12 };
    let n_filters = (cfg.share(if cfg.quick() { 2400 } else { 160_000 }) / n_schemes).max(1) as usize;
    let n_ctx = if cfg.quick() { 6 } else { 10 };
    let mut core = Core::new();
    for k in 0..n_schemes {
        let mut spec = fgen::rich_scheme(&mut rng, 128);
        // every way of building the scheme occurs in every run; the route that relies on the
        // documented default of the nil-not-equal behaviour needs that default to matter
        spec.route = ((3 + k + cfg.shard) % 4) as u8 | (spec.route & 4);
        if spec.route & 3 == 3 {
            spec.nil_ne = true;
        }
        let line = spec.op_line();
        let a = core.apply(&line).expect("scheme line");
        out.case(&line, &a, None, &["scheme"]);
        let ctxs: Vec<_> = (0..24).map(|_| fgen::gen_ctx(&mut rng, &spec)).collect();
        let mut batch: Vec<(String, bool, Vec<&'static str>)> = Vec::new();
        for _ in 0..n_filters {
            let depth = *rng.pick(&[1u32, 2, 2, 3, 3, 4]);
            let mut g = G::new(&mut rng, &spec);
            g.focus = focus;
            g.allow_regex = false;
            let value = (focus == Focus::Calls && g.rng.chance(1, 4))
                || (focus == Focus::Containers && g.rng.chance(1, 5));
            let t = if value { g.value_expr(depth.min(2)) } else { g.expr(false, depth) };
            let st = g.stats.clone();
            batch.push((t, value, st));
        }
        // context-major order so that each `ctx` line is emitted once
        let per_ctx = (batch.len() * n_ctx).div_ceil(ctxs.len());
        let mut answers: Vec<Vec<(usize, String)>> = vec![Vec::new(); batch.len()];
        let mut emitted: Vec<(usize, usize, String, String)> = Vec::new(); // (ci, fi, op, ans)
        for (ci, c) in ctxs.iter().enumerate() {
            let cl = c.op_line();
            let a = core.apply(&cl).expect("ctx line");
            emitted.push((ci, usize::MAX, cl, a));
            for k in 0..per_ctx {
                let fi = (ci * per_ctx + k * 7 + ci) % batch.len();
                let (text, is_value, _) = &batch[fi];
                let op = format!("{} {}", if *is_value { "value" } else { "exec" }, hex(text.as_bytes()));
                let ans = core.apply(&op).expect("core op");
                answers[fi].push((ci, ans.clone()));
                emitted.push((ci, fi, op.clone(), ans.clone()));
                // list-matcher state must survive a serialization round trip
                if focus == Focus::Lists && !*is_value && text.contains('$') && (k + ci) % 3 == 0 {
                    let op2 = format!("execrt {}", hex(text.as_bytes()));
                    let ans2 = core.apply(&op2).expect("core op");
                    if ans2 != ans {
                        out.impl_failure(&op2, &format!("after a JSON round trip of the context {text:?} gives {ans2}, before it gave {ans}"));
                    }
                    emitted.push((ci, fi, op2, ans2));
                }
            }
        }
        for (ci, fi, op, ans) in emitted {
            if fi == usize::MAX {
                out.case(&op, &ans, None, &["ctx"]);
                continue;
            }
            let (text, is_value, stats) = &batch[fi];
            let distinct = answers[fi].iter().map(|x| &x.1).collect::<std::collections::BTreeSet<_>>().len();
            let nontrivial = distinct >= 2 && ans != "err";
            let mut tags = tags_for(text, &ans, *is_value);
            tags.extend(stats.iter());
            let key = format!("{text}#{ci}");
            out.case(&op, &ans, if nontrivial { Some(&key) } else { None }, &tags);
        }
        // histories on ONE live context: add members to the matchers / set values / clear /
        // execute, in every order ("matcher state set on a context is what executions see ...
        // and is emptied by clear"), starting from a context without any value
        if focus == Focus::Lists {
            let list_filters: Vec<String> =
                batch.iter().filter(|(t, v, _)| !*v && t.contains('$')).map(|x| x.0.clone()).take(60).collect();
            let n_hist = cfg.share(if cfg.quick() { 160 } else { 4000 });
            for _ in 0..n_hist {
                if list_filters.is_empty() {
                    break;
                }
                let emit = |core: &mut Core, out: &mut Out, line: String, tag: &'static str| {
                    let a = core.apply(&line).expect("history op");
                    let key = line.clone();
                    out.case(&line, &a, if tag == "hist.exec" { Some(&key) } else { None }, &[tag]);
                };
                emit(&mut core, out, "ctx . .".to_string(), "hist.start");
                let mut has_values = false;
                let steps = 5 + rng.below(6);
                for _ in 0..steps {
                    let c = fgen::gen_ctx(&mut rng, &spec);
                    let cl = c.op_line();
                    let parts: Vec<&str> = cl.split(' ').collect();
                    match rng.below(8) {
                        0 | 1 => emit(&mut core, out, format!("ctxmut set . {}", parts[2]), "hist.members"),
                        2 | 3 => {
                            emit(&mut core, out, "ctxmut clear".to_string(), "hist.clear");
                            has_values = false;
                        }
                        4 => {
                            emit(&mut core, out, format!("ctxmut set {} .", parts[1]), "hist.values");
                            has_values = true;
                        }
                        _ => {
                            if !has_values {
                                emit(&mut core, out, format!("ctxmut set {} .", parts[1]), "hist.values");
                                has_values = true;
                            }
                            let t = rng.pick(&list_filters).clone();
                            emit(&mut core, out, format!("exec {}", hex(t.as_bytes())), "hist.exec");
                        }
                    }
                }
            }
        }
    }
}
