//! Stream `typing` (C04): the complete finite matrices (left type x operator x literal kind),
//! (container type x index kind), (operand type pairs x logical operator), (quantifier
//! argument shapes), (function x argument shapes), rendered as text; every accepted program
//! is then executed on three contexts (random, all containers empty, only the Bytes containers empty) under
//! catch_unwind, and value expressions report the runtime type of their result.
use crate::Cfg;
use crate::core::{self, CtxSpec};
use crate::coreops::Core;
use crate::fgen;
use crate::out::{Out, hex};
use wirefilter::{Array, LhsValue, Map, Type};

/// containers empty: all of them (`bytes_only = false`) or only those over Bytes
fn empty_ctx(spec: &core::SchemeSpec, rng: &mut crate::rng::Rng, bytes_only: bool) -> CtxSpec {
    let mut values = Vec::new();
    for f in &spec.fields {
        let over_bytes = crate::codec::ty_str(&f.ty).ends_with('Y');
        values.push(Some(match f.ty {
            Type::Array(e) if over_bytes || !bytes_only => LhsValue::Array(Array::new(e)),
            Type::Map(e) if over_bytes || !bytes_only => LhsValue::Map(Map::new(e)),
            ref t => {
                let mut v = fgen::gen_val(rng, t);
                // make sure the non-empty ones really are non-empty
                for _ in 0..20 {
                    let empty = match &v {
                        LhsValue::Array(a) => a.is_empty(),
                        LhsValue::Map(m) => m.is_empty(),
                        _ => false,
                    };
                    if !empty {
                        break;
                    }
                    v = fgen::gen_val(rng, t);
                }
                v
            }
        }));
    }
    CtxSpec { values, sets: vec![] }
}

struct Runner<'a> {
    core: Core,
    out: &'a mut Out,
    ctx_lines: Vec<String>,
    cfg: Cfg,
    idx: u64,
}

impl Runner<'_> {
    /// parse a filter; when accepted, execute it on every context
    fn filter(&mut self, text: &str, tag: &'static str) {
        self.idx += 1;
        if !self.cfg.mine(self.idx) {
            return;
        }
        let op = format!("parse {}", hex(text.as_bytes()));
        let ans = self.core.apply(&op).unwrap();
        self.out.case(&op, &ans, Some(text), &[tag, if ans == "ok" { "accepted" } else { "rejected" }]);
        if ans == "ok" {
            for cl in self.ctx_lines.clone() {
                let a = self.core.apply(&cl).unwrap();
                self.out.case(&cl, &a, None, &[]);
                let op = format!("exec {}", hex(text.as_bytes()));
                let ans = self.core.apply(&op).unwrap();
                if ans == "panic" {
                    self.out.impl_failure(&op, &format!("accepted filter panicked at execution: {text:?}"));
                }
                self.out.case(&op, &ans, None, &["exec.accepted", if ans == "panic" { "exec.panic" } else { "exec.fine" }]);
            }
        }
    }

    fn value(&mut self, text: &str, tag: &'static str) {
        self.idx += 1;
        if !self.cfg.mine(self.idx) {
            return;
        }
        let op = format!("parsev {}", hex(text.as_bytes()));
        let ans = self.core.apply(&op).unwrap();
        self.out.case(&op, &ans, Some(text), &[tag, if ans == "ok" { "accepted" } else { "rejected" }]);
        if ans == "ok" {
            for cl in self.ctx_lines.clone() {
                let a = self.core.apply(&cl).unwrap();
                self.out.case(&cl, &a, None, &[]);
                let op = format!("value {}", hex(text.as_bytes()));
                let ans = self.core.apply(&op).unwrap();
                if ans == "panic" {
                    self.out.impl_failure(&op, &format!("accepted value expression panicked: {text:?}"));
                }
                self.out.case(&op, &ans, None, &["value.accepted"]);
            }
        }
    }
}

const LHS: [&str; 30] = [
    "b", "i", "p", "y", "ab", "ai", "ap", "ay", "mb", "mi", "mp", "my", "aab", "aai", "mab", "amy",
    "ai[0]", "ai[*]", "mi[\"a\"]", "mi[*]", "aai[*][*]", "aai[0][*]", "aai[*][0]", "ab[*]", "mb[*]",
    "aab[*]", "len(y)", "len(ay[*])", "len(ay[*])[*]", "oi",
];
const OPS: [&str; 20] = [
    "", "==", "eq", "!=", "ne", "<", "le", ">=", "gt", "&", "bitwise_and", "in", "contains", "~",
    "matches", "wildcard", "strict wildcard", "xyz", "=", "and",
];
const RHS: [&str; 18] = [
    "", "5", "-5", "0x10", "\"a\"", "r\"a\"", "61:62", "1.2.3.4", "::1", "{1 2..3}", "{\"a\" 61:62}",
    "{1.2.3.4 ::/0}", "{}", "$l1", "$nolist.", "1..2", "true", "y",
];

pub fn run(cfg: Cfg, out: &mut Out) {
    core::silence_panics();
    let mut rng = cfg.rng();
    let spec = fgen::rich_scheme(&mut rng, 128);
    let mut core = Core::new();
    let line = spec.op_line();
    let a = core.apply(&line).unwrap();
    out.case(&line, &a, None, &["scheme"]);
    let ctxs = vec![fgen::gen_ctx(&mut rng, &spec), empty_ctx(&spec, &mut rng, false), empty_ctx(&spec, &mut rng, true)];
    let ctx_lines: Vec<String> = ctxs.iter().map(|c| c.op_line()).collect();
    let mut r = Runner { core, out, ctx_lines, cfg, idx: 0 };

    // 1. lhs x operator x rhs
    for l in LHS {
        for o in OPS {
            for rh in RHS {
                let text = match (o.is_empty(), rh.is_empty()) {
                    (true, true) => l.to_string(),
                    (true, false) => format!("{l} {rh}"),
                    (false, true) => format!("{l} {o}"),
                    (false, false) => format!("{l} {o} {rh}"),
                };
                r.filter(&text, "matrix.op");
                if l.contains('[') || l.contains('(') {
                    continue;
                }
                // same cell under a quantifier (array-level use)
                if o.is_empty() && rh.is_empty() {
                    r.filter(&format!("any({l})"), "matrix.quant");
                    r.filter(&format!("all({l}[*])"), "matrix.quant");
                }
            }
        }
    }

    // 2. container type x index kind (as value expressions and as comparisons)
    let idxs = ["[0]", "[\"a\"]", "[*]", "[-1]", "[4294967295]", "[4294967296]", "[0x1]", "[\"\\xff\"]", "[ 1 ]", "[01]", "[r\"a\"]", "[]"];
    let fields: Vec<String> = r.core.spec.fields.iter().map(|f| f.name.clone()).collect();
    for f in &fields {
        r.value(f, "matrix.index");
        for a in idxs {
            r.value(&format!("{f}{a}"), "matrix.index");
            r.filter(&format!("{f}{a} == 1"), "matrix.index");
            r.filter(&format!("any({f}{a} == \"a\")"), "matrix.index");
            for b in idxs.iter().take(4) {
                r.value(&format!("{f}{a}{b}"), "matrix.index2");
                r.filter(&format!("{f}{a}{b}"), "matrix.index2");
                r.filter(&format!("all({f}{a}{b} <= 1.2.3.4)"), "matrix.index2");
                // quantifier directly over an index path (argument typing by the VALUE it yields)
                r.filter(&format!("any({f}{a}{b})"), "matrix.index2.quant");
                r.filter(&format!("all({f}{a}{b}[0])"), "matrix.index3.quant");
                r.filter(&format!("any({f}{a}{b}[*])"), "matrix.index3.quant");
                // the same paths as a parenthesised / negated operand: typed by the comparison
                // lexer (bare operand of a container-of-Bool type), not by the argument lexer
                r.filter(&format!("any(({f}{a}{b}))"), "matrix.index2.quant.paren");
                r.filter(&format!("all((not {f}{a}{b}))"), "matrix.index2.quant.paren");
                r.filter(&format!("any(({f}{a}{b}[0]) or ab)"), "matrix.index3.quant.paren");
            }
        }
    }

    // 3. operand type pairs x logical operator; top level must be a plain boolean
    let operands = [
        "b", "ob", "ab", "mb", "ai[*] == 1", "i == 1", "any(ab)", "aab[0]", "aab[*]", "y", "5", "(ab)",
        "(b)", "not ab", "not b", "ab[*]", "mb[*]", "mab[\"a\"]", "(ai[*] == 1)", "all(ai[*] == 1)",
    ];
    for x in operands {
        r.filter(x, "matrix.logical.top");
        r.filter(&format!("not {x}"), "matrix.logical.not");
        r.filter(&format!("any({x})"), "matrix.logical.quant");
        r.filter(&format!("all(({x}))"), "matrix.logical.quant");
        for op in ["and", "or", "xor", "&&", "||", "^^"] {
            for y in operands {
                r.filter(&format!("{x} {op} {y}"), "matrix.logical");
                r.filter(&format!("any(({x}) {op} {y})"), "matrix.logical.arr");
                r.filter(&format!("blen(({x}) {op} {y}) >= 0"), "matrix.logical.arg");
            }
        }
    }

    // 4. function x argument shapes
    let funcs = ["echo", "lower", "len", "first", "opt2", "dropempty", "alen", "addlit", "b2i", "blen", "concat", "ctxfn", "nofn"];
    let args = [
        "5", "\"x\"", "1.2.3.4", "y", "oy", "i", "b", "ay", "ai", "ab", "ay[*]", "ay[0]", "my[*]", "aay[*]",
        "aay[*][*]", "i == 1", "(i == 1)", "ai[*] == 1", "lower(y)", "len(ay[*])", "", "y == \"a\"", "not b",
    ];
    for f in funcs {
        r.value(&format!("{f}()"), "matrix.func");
        r.value(&format!("{f}"), "matrix.func");
        for a in args {
            r.value(&format!("{f}({a})"), "matrix.func");
            r.value(&format!("{f}({a})[0]"), "matrix.func.idx");
            r.filter(&format!("{f}({a}) == 1"), "matrix.func.cmp");
            r.filter(&format!("{f}({a}) == \"a\""), "matrix.func.cmp");
            r.filter(&format!("any({f}({a})[*] == 1)"), "matrix.func.cmp");
            for b in args {
                r.value(&format!("{f}({a},{b})"), "matrix.func2");
                r.value(&format!("{f}({a}, {b})[0]"), "matrix.func2");
                if f == "opt2" || f == "concat" || f == "ctxfn" {
                    for c in ["5", "\"z\"", "y", "ay[*]", "ay"] {
                        r.value(&format!("{f}({a},{b},{c})"), "matrix.func3");
                    }
                }
            }
        }
    }
    // concat over a mapped call result (array of a different element type when empty)
    for t in [
        "concat(len(ay[*]), ai)[0] == 1",
        "any(concat(len(ay[*]), ai)[*] == 1)",
        "alen(concat(lower(ay[*]), ay)) >= 0",
        "concat(ai, len(ay[*]))[0] == 1",
        "any(aab[*])",
        "all(aab[*])",
        "any(mab[*])",
        "any(aab[0])",
        "any(mab[\"a\"])",
    ] {
        r.filter(t, "targeted");
    }

    // 5. random well-typed and ill-typed compositions (depth <= 4): mutate generated filters
    let n = r.cfg.share(if r.cfg.quick() { 1500 } else { 200_000 });
    let spec2 = r.core.spec.clone();
    for _ in 0..n {
        let depth = *rng.pick(&[1u32, 2, 3, 4]);
        let mut g = fgen::G::new(&mut rng, &spec2);
        g.allow_regex = false;
        let t = g.expr(false, depth);
        let t = match rng.below(6) {
            0 => t,
            1 => swap_token(&t, &mut rng),
            2 => t.replacen("==", "contains", 1),
            3 => t.replacen("[*]", "[0]", 1),
            4 => t.replacen("[0]", "[*]", 1),
            _ => t.replacen("any", "all(any", 1) + ")",
        };
        r.idx = 0; // random part is sharded by count, not by index
        let save = r.cfg;
        r.cfg = Cfg { shard: 0, nshards: 1, ..save };
        r.filter(&t, "random.composition");
        r.cfg = save;
    }
}

fn swap_token(t: &str, rng: &mut crate::rng::Rng) -> String {
    let toks: Vec<&str> = t.split(' ').collect();
    if toks.len() < 3 {
        return t.to_string();
    }
    let i = rng.below(toks.len() as u64) as usize;
    let j = rng.below(toks.len() as u64) as usize;
    let mut v: Vec<String> = toks.iter().map(|s| s.to_string()).collect();
    v.swap(i, j);
    v.join(" ")
}
