use crate::Cfg;
use crate::out::Out;

pub mod exec;
pub mod inset;

pub fn run(stream: &str, cfg: Cfg, out: &mut Out) -> bool {
    match stream {
        "inset" => inset::run(cfg, out),
        s if s.starts_with("exec-") => exec::run(&s[5..], cfg, out),
        _ => return false,
    }
    true
}

pub fn replay(stream: &str, op: &str) -> Option<String> {
    match stream {
        "inset" => inset::replay(op),
        _ => None,
    }
}
