use crate::Cfg;
use crate::out::Out;

pub mod contains;
pub mod ctxop;
pub mod ctxser;
pub mod capi;
pub mod exec;
pub mod fuzz;
pub mod pcop;
/// wrappers around the engine's cfg-guarded verification hooks
#[path = "../hooks.rs"]
pub mod hooks;
pub mod regop;
pub mod threads;
pub mod rx;
pub mod wild;
pub mod inset;
pub mod misc;
pub mod nest;
pub mod typing;
pub mod tyenc;

pub fn run(stream: &str, cfg: Cfg, out: &mut Out) -> bool {
    match stream {
        "inset" => inset::run(cfg, out),
        "tyenc" => tyenc::run(cfg, out),
        "ctxser" => ctxser::run(cfg, out),
        "pcop" => pcop::run(cfg, out),
        "capi" => capi::run(cfg, out),
        "regop" => regop::run(cfg, out),
        "ctxop" => ctxop::run(cfg, out),
        "contains" => contains::run(cfg, out),
        "wild" => wild::run(cfg, out),
        "rx" => rx::run(cfg, out),
        "nest" => nest::run(cfg, out),
        "threads" => threads::run(cfg, out),
        "fuzz" => fuzz::run(cfg, out),
        "uses" => misc::run_uses(cfg, out),
        "json" => misc::run_json(cfg, out),
        "lit" => misc::run_lit(cfg, out),
        "typing" => typing::run(cfg, out),
        s if s.starts_with("exec-") => exec::run(&s[5..], cfg, out),
        _ => return false,
    }
    true
}

/// replay of a stateless op line, dispatched on its first word
pub fn replay_any(line: &str) -> Option<String> {
    match line.split(' ').next()? {
        "inset" => inset::replay(line),
        "oracle" => Some("ok".to_string()),
        "tyenc" => tyenc::replay(line),
        "ctxser" => ctxser::replay(line),
        "pcop" | "pcop2" => pcop::replay(line),
        "cstr" | "capi" => capi::replay(line),
        "regop" => regop::replay(line),
        "ctxop" => ctxop::replay(line),
        "contains" | "containsb" => contains::replay(line),
        "wild" | "wildp" | "wildm" => wild::replay(line),
        "rxscan" | "rxm" | "rx" => rx::replay(line),
        _ => None,
    }
}

pub fn replay(stream: &str, op: &str) -> Option<String> {
    match stream {
        "inset" => inset::replay(op),
        "tyenc" => tyenc::replay(op),
        "ctxser" => ctxser::replay(op),
        "pcop" => pcop::replay(op),
        "capi" => capi::replay(op),
        "pcop-child" => pcop::child(op),
        "fuzz-child" => fuzz::child(op),
        "threads-child" => threads::child(op),
        "regop" => regop::replay(op),
        "ctxop" => ctxop::replay(op),
        "contains" => contains::replay(op),
        "wild" => wild::replay(op),
        "rx" => rx::replay(op),
        _ => None,
    }
}
