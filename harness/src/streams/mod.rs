use crate::Cfg;
use crate::out::Out;

pub mod exec;
pub mod inset;
pub mod nest;
pub mod typing;
pub mod tyenc;

pub fn run(stream: &str, cfg: Cfg, out: &mut Out) -> bool {
    match stream {
        "inset" => inset::run(cfg, out),
        "tyenc" => tyenc::run(cfg, out),
        "nest" => nest::run(cfg, out),
        "typing" => typing::run(cfg, out),
        s if s.starts_with("exec-") => exec::run(&s[5..], cfg, out),
        _ => return false,
    }
    true
}

/// replay of a stateless op line, dispatched on its first word
pub fn replay_any(line: &str) -> Option<String> {
    match line.split(' ').next()? {
        "inset" => inset::replay(line),
        "tyenc" => tyenc::replay(line),
        _ => None,
    }
}

pub fn replay(stream: &str, op: &str) -> Option<String> {
    match stream {
        "inset" => inset::replay(op),
        "tyenc" => tyenc::replay(op),
        _ => None,
    }
}
