//! Streams `uses` (C12), `json` (C07), `lit` (C06) over the core executor.
use crate::Cfg;
use crate::core;
use crate::coreops::Core;
use crate::fgen::{self, G};
use crate::out::{Out, hex};
use crate::rng::Rng;

// ------------------------------------------------------------------------------------ uses
pub fn run_uses(cfg: Cfg, out: &mut Out) {
    core::silence_panics();
    let mut rng = cfg.rng();
    let mut core = Core::new();
    let n_schemes = if cfg.quick() { 2 } else { 6 };
    let n_filters = (cfg.share(if cfg.quick() { 500 } else { 40_000 }) / n_schemes).max(1);
    for _ in 0..n_schemes {
        let spec = fgen::rich_scheme(&mut rng, 128);
        let line = spec.op_line();
        let a = core.apply(&line).unwrap();
        out.case(&line, &a, None, &["scheme"]);
        for _ in 0..n_filters {
            let depth = *rng.pick(&[1u32, 2, 3, 4]);
            let mut g = G::new(&mut rng, &spec);
            g.allow_regex = false;
            g.focus = *g.rng.pick(&[fgen::Focus::All, fgen::Focus::Lists, fgen::Focus::Calls]);
            let text = g.expr(false, depth);
            let used = g.used.clone();
            let h = hex(text.as_bytes());
            // every field of the scheme, a few unknown names, function names
            let mut names: Vec<(String, Option<bool>)> = spec
                .fields
                .iter()
                .enumerate()
                .map(|(i, f)| (f.name.clone(), Some(used.contains(&i))))
                .collect();
            for n in ["nosuch", "len", "concat", "http", "http.hos", "http.host.x", "I", ""] {
                names.push((n.to_string(), None));
            }
            let parses = core.apply(&format!("parse {h}")).unwrap() == "ok";
            for (name, truth) in names {
                let op = format!("uses {h} {}", hex(name.as_bytes()));
                let ans = core.apply(&op).unwrap();
                if parses {
                    match truth {
                        Some(t) if ans != t.to_string() => out.impl_failure(
                            &op,
                            &format!("uses({name}) = {ans} but the generator {} that field in {text:?}", if t { "wrote" } else { "did not write" }),
                        ),
                        None if ans != "unknown" => out.impl_failure(&op, &format!("uses({name}) = {ans} for a name that is not a field")),
                        _ => {}
                    }
                }
                let nontrivial = used.len() >= 2;
                let key1 = format!("{text}#{name}");
                let key2 = format!("L{text}#{name}");
                out.case(&op, &ans, if nontrivial { Some(&key1) } else { None }, &["uses", match ans.as_str() { "true" => "uses.true", "false" => "uses.false", "unknown" => "uses.unknown", _ => "uses.err" }]);
                let op = format!("useslist {h} {}", hex(name.as_bytes()));
                let ans = core.apply(&op).unwrap();
                out.case(&op, &ans, if nontrivial && text.contains('$') { Some(&key2) } else { None }, &["useslist", match ans.as_str() { "true" => "useslist.true", "false" => "useslist.false", "unknown" => "useslist.unknown", _ => "useslist.err" }]);
            }
        }
    }
}

// ------------------------------------------------------------------------------------ json
/// re-spell operators by their aliases and re-layout the text, leaving string literals,
/// raw strings and brace/bracket contents' literals intact
pub fn respell(text: &str, rng: &mut Rng) -> String {
    const PAIRS: [(&str, &str); 12] = [
        ("and", "&&"), ("or", "||"), ("xor", "^^"), ("not", "!"), ("eq", "=="), ("ne", "!="),
        ("ge", ">="), ("le", "<="), ("gt", ">"), ("lt", "<"), ("matches", "~"), ("bitwise_and", "&"),
    ];
    let cs: Vec<char> = text.chars().collect();
    let mut out = String::new();
    let mut i = 0;
    let is_word = |c: char| c.is_ascii_alphanumeric() || c == '_' || c == '.';
    while i < cs.len() {
        let c = cs[i];
        // quoted string
        if c == '"' {
            out.push(c);
            i += 1;
            while i < cs.len() {
                out.push(cs[i]);
                if cs[i] == '\\' && i + 1 < cs.len() {
                    out.push(cs[i + 1]);
                    i += 2;
                    continue;
                }
                if cs[i] == '"' {
                    i += 1;
                    break;
                }
                i += 1;
            }
            continue;
        }
        // raw string r"..." / r#"..."#
        if c == 'r' && i + 1 < cs.len() && (cs[i + 1] == '"' || cs[i + 1] == '#') && (i == 0 || !is_word(cs[i - 1])) {
            let mut j = i + 1;
            let mut k = 0;
            while j < cs.len() && cs[j] == '#' {
                k += 1;
                j += 1;
            }
            if j < cs.len() && cs[j] == '"' {
                j += 1;
                let closing: String = std::iter::once('"').chain(std::iter::repeat('#').take(k)).collect();
                let rest: String = cs[j..].iter().collect();
                if let Some(p) = rest.find(&closing) {
                    let end = j + rest[..p].chars().count() + closing.chars().count();
                    out.extend(cs[i..end].iter());
                    i = end;
                    continue;
                }
            }
        }
        // the two-word operator `strict wildcard` is ONE token (with exactly one space inside)
        if cs[i..].starts_with(&"strict wildcard".chars().collect::<Vec<_>>()[..]) && (i == 0 || !is_word(cs[i - 1])) {
            out.push_str("strict wildcard");
            i += "strict wildcard".len();
            continue;
        }
        if c == ' ' || c == '\n' || c == '\r' {
            // whitespace run -> another whitespace run
            while i < cs.len() && (cs[i] == ' ' || cs[i] == '\n' || cs[i] == '\r') {
                i += 1;
            }
            out.push_str(*rng.pick(&[" ", " ", "  ", "\n", " \r\n", "\n  "]));
            continue;
        }
        if is_word(c) {
            let mut j = i;
            while j < cs.len() && is_word(cs[j]) {
                j += 1;
            }
            let w: String = cs[i..j].iter().collect();
            let mut rep = w.clone();
            for (a, b) in PAIRS {
                if w == a && rng.chance(1, 2) {
                    rep = b.to_string();
                    // `!` and symbols need no following space but keep the one that is there
                }
            }
            out.push_str(&rep);
            i = j;
            continue;
        }
        // symbolic operators -> word aliases (need surrounding spaces)
        let two: String = cs[i..(i + 2).min(cs.len())].iter().collect();
        let mut done = false;
        for (a, b) in PAIRS {
            if two == b && b.len() == 2 && rng.chance(1, 2) {
                out.push_str(&format!(" {a} "));
                i += 2;
                done = true;
                break;
            }
        }
        if done {
            continue;
        }
        if two.len() == 2 && PAIRS.iter().any(|(_, b)| *b == two) {
            out.push_str(&two);
            i += 2;
            continue;
        }
        out.push(c);
        i += 1;
    }
    out
}

fn std_hash<T: std::hash::Hash>(t: &T) -> u64 {
    use std::hash::Hasher;
    let mut h = std::collections::hash_map::DefaultHasher::new();
    t.hash(&mut h);
    h.finish()
}

/// Parses both texts; `must_be_equal`: the ASTs have to be equal. Whenever they are equal
/// (`PartialEq`), `Hash`, the JSON text and the FNV of the JSON have to agree too.
fn ast_pair_defect(core: &Core, t1: &str, t2: &str, must_be_equal: bool) -> Option<String> {
    let p = core.spec.parser(&core.scheme);
    let (a1, a2) = match (p.parse(t1), p.parse(t2)) {
        (Ok(a), Ok(b)) => (a, b),
        (Err(_), Err(_)) => return None,
        _ => return if must_be_equal { Some(format!("one spelling parses, the other does not: {t1:?} / {t2:?}")) } else { None },
    };
    if a1 != a2 {
        return if must_be_equal { Some(format!("re-spelling changed the AST: {t1:?} / {t2:?}")) } else { None };
    }
    if std_hash(&a1) != std_hash(&a2) {
        return Some(format!("equal ASTs have different std::hash::Hash values: {t1:?} / {t2:?}"));
    }
    let (j1, j2) = (serde_json::to_string(&a1).ok(), serde_json::to_string(&a2).ok());
    if j1 != j2 {
        return Some(format!("equal ASTs serialize differently: {t1:?} / {t2:?}"));
    }
    None
}

/// rewrites some quoted string literals without escapes as raw strings (`"ab"` -> `r"ab"`,
/// `r#"ab"#`, `r##"ab"##`), leaving everything else as it is
pub fn respell_literal_forms(text: &str, rng: &mut Rng) -> String {
    let cs: Vec<char> = text.chars().collect();
    let mut out = String::new();
    let mut i = 0;
    let is_word = |c: char| c.is_ascii_alphanumeric() || c == '_' || c == '.';
    while i < cs.len() {
        if cs[i] == '"' {
            // find the closing quote; give up on this literal if it has escapes
            let mut j = i + 1;
            let mut plain = true;
            while j < cs.len() && cs[j] != '"' {
                if cs[j] == '\\' {
                    plain = false;
                    j += 1;
                }
                j += 1;
            }
            let end = (j + 1).min(cs.len());
            let body: String = cs[(i + 1).min(end)..j.min(cs.len())].iter().collect();
            let after_raw_prefix = i > 0 && (cs[i - 1] == '#' || (cs[i - 1] == 'r' && (i < 2 || !is_word(cs[i - 2]))));
            if plain && j < cs.len() && !after_raw_prefix && !body.contains('#') && rng.chance(2, 3) {
                let k = rng.below(3) as usize;
                let hashes = "#".repeat(k);
                out.push_str(&format!("r{hashes}\"{body}\"{hashes}"));
            } else {
                out.extend(cs[i..end].iter());
            }
            i = end;
            continue;
        }
        out.push(cs[i]);
        i += 1;
    }
    out
}

pub fn run_json(cfg: Cfg, out: &mut Out) {
    core::silence_panics();
    let mut rng = cfg.rng();
    let mut core = Core::new();
    let n_schemes = if cfg.quick() { 2 } else { 6 };
    let n_filters = (cfg.share(if cfg.quick() { 3000 } else { 300_000 }) / n_schemes).max(1);
    for _ in 0..n_schemes {
        let spec = fgen::rich_scheme(&mut rng, 128);
        let line = spec.op_line();
        let a = core.apply(&line).unwrap();
        out.case(&line, &a, None, &["scheme"]);
        for _ in 0..n_filters {
            let depth = *rng.pick(&[1u32, 2, 3, 4]);
            let mut g = G::new(&mut rng, &spec);
            g.allow_regex = true;
            let text = g.expr(false, depth);
            let op = format!("json {}", hex(text.as_bytes()));
            let ans = core.apply(&op).unwrap();
            let nops = text.matches(" and ").count() + text.matches("&&").count() + text.matches("||").count() + text.matches(" or ").count() + text.matches("xor").count() + text.matches("^^").count() + text.matches("==").count() + text.matches(" eq ").count();
            out.case(&op, &ans, if nops >= 2 { Some(&text) } else { None }, &["json", if ans == "err" { "json.err" } else { "json.ok" }]);
            let hop = format!("hash {}", hex(text.as_bytes()));
            let hans = core.apply(&hop).unwrap();
            out.case(&hop, &hans, None, &["hash"]);
            if ans.starts_with("ok") {
                // alias / layout invariance: the re-spelled text must give the identical document
                for _ in 0..2 {
                    let t2 = respell(&text, &mut rng);
                    let op2 = format!("json {}", hex(t2.as_bytes()));
                    let ans2 = core.apply(&op2).unwrap();
                    if ans2 != ans {
                        out.impl_failure(&op2, &format!("re-spelling changed the JSON: {text:?} vs {t2:?}"));
                    }
                    out.case(&op2, &ans2, if nops >= 2 { Some(&t2) } else { None }, &["json.respelled"]);
                    let h2 = core.apply(&format!("hash {}", hex(t2.as_bytes()))).unwrap();
                    if h2 != hans {
                        out.impl_failure(&op2, "re-spelling changed the hash");
                    }
                    // "yields an equal AST" / "equal ASTs have equal hashes" on the Rust values
                    if let Some(why) = ast_pair_defect(&core, &text, &t2, true) {
                        out.impl_failure(&op2, &why);
                    }
                }
                // the same literals written in another form (quoted -> raw string): whenever the
                // engine calls the two ASTs equal, their std hashes, JSON and C-API hash must agree
                let t4 = respell_literal_forms(&text, &mut rng);
                if t4 != text {
                    let op4 = format!("oracle asteq {} {}", hex(text.as_bytes()), hex(t4.as_bytes()));
                    let why = ast_pair_defect(&core, &text, &t4, false);
                    if let Some(why) = &why {
                        out.impl_failure(&op4, why);
                    }
                    out.case(&op4, if why.is_none() { "ok" } else { "mismatch" }, None, &["json.literal-forms"]);
                }
                // (that two DIFFERENT structures never share a document is carried by the model:
                // `json_injective` is proved there and every document is compared with the
                // model's. A harness-side comparison of the Rust ASTs of two texts with equal
                // documents was removed: `(x)` and `x` are different Rust ASTs and, by the
                // property's own wording, the same document.)
                // one-edit neighbours: flip one operator
                for (a, b) in [("==", "!="), (" and ", " or "), ("<=", "<"), ("[0]", "[1]"), ("any", "all")] {
                    if text.contains(a) {
                        let t3 = text.replacen(a, b, 1);
                        let op3 = format!("json {}", hex(t3.as_bytes()));
                        let ans3 = core.apply(&op3).unwrap();
                        if ans3.starts_with("ok") && ans3 == ans {
                            out.impl_failure(&op3, &format!("structurally different filters serialize alike: {text:?} / {t3:?}"));
                        }
                        out.case(&op3, &ans3, None, &["json.neighbour"]);
                        break;
                    }
                }
            }
        }
    }
}

// ------------------------------------------------------------------------------------ lit
fn esc_variants(b: u8, rng: &mut Rng) -> String {
    match rng.below(3) {
        0 => format!("\\x{b:02x}"),
        1 => format!("\\x{b:02X}"),
        _ => format!("\\{b:03o}"),
    }
}

pub fn run_lit(cfg: Cfg, out: &mut Out) {
    core::silence_panics();
    let mut rng = cfg.rng();
    let mut core = Core::new();
    let mut spec = fgen::rich_scheme(&mut rng, 128);
    spec.lists.clear();
    let line = spec.op_line();
    let a = core.apply(&line).unwrap();
    out.case(&line, &a, None, &["scheme"]);
    let followers = ["", " ", ")", " and b", " or b", "\n&& b", "xor b", ")]", "}", ",", "..", ":", "a", "0", "-", "."];
    let mut idx = 0u64;
    let mut emit = |core: &mut Core, out: &mut Out, text: String, tag: &'static str| {
        idx += 1;
        if !cfg.mine(idx) {
            return;
        }
        let op = format!("json {}", hex(text.as_bytes()));
        let ans = core.apply(&op).unwrap();
        out.case(&op, &ans, if text.len() >= 8 { Some(&text) } else { None }, &[tag, if ans == "err" { "lit.err" } else { "lit.ok" }]);
    };
    // integers: boundaries and random values in each radix, each follower
    let mut ints: Vec<i128> = vec![0, 1, -1, 7, 8, 9, 10, 15, 16, 255, 256, i64::MAX as i128, i64::MIN as i128, i64::MAX as i128 + 1, i64::MIN as i128 - 1, 1 << 31, 1 << 32, (1i128 << 32) - 1, u64::MAX as i128];
    for _ in 0..(if cfg.quick() { 40 } else { 2000 }) {
        ints.push(rng.range(i64::MIN, i64::MAX) as i128);
        ints.push(rng.range(-300, 300) as i128);
    }
    for v in &ints {
        let mut forms = vec![v.to_string()];
        if *v >= 0 {
            forms.push(format!("0x{v:x}"));
            forms.push(format!("0x{v:X}"));
            forms.push(format!("0{v:o}"));
            forms.push(format!("00{v:o}"));
            forms.push(format!("+{v}"));
        } else {
            forms.push(format!("-0x{:x}", -v));
            forms.push(format!("- {}", -v));
        }
        for f in &forms {
            for fo in followers {
                emit(&mut core, out, format!("i == {f}{fo}"), "lit.int");
            }
            emit(&mut core, out, format!("i in {{{f}}}"), "lit.int.set");
            emit(&mut core, out, format!("i in {{{f}..{f}}}"), "lit.int.range");
            emit(&mut core, out, format!("i in {{0..{f}}}"), "lit.int.range");
            emit(&mut core, out, format!("i in {{{f}..0}}"), "lit.int.range");
            emit(&mut core, out, format!("ai[{f}] == 1"), "lit.index");
            emit(&mut core, out, format!("(i & {f})"), "lit.int");
        }
    }
    // corrupted integer literals: a foreign character at every position of a valid literal
    for base in ["0", "012", "0777", "0x1f", "10", "-12", "9223372036854775807", "0x7fffffffffffffff", "01777777777777777777777"] {
        let cs: Vec<char> = base.chars().collect();
        for pos in 0..=cs.len() {
            for ins in ['8', '9', 'a', 'f', 'x', 'X', '+', '-', '_', '.', ' ', 'g'] {
                let mut v = cs.clone();
                v.insert(pos, ins);
                let f: String = v.into_iter().collect();
                emit(&mut core, out, format!("i == {f}"), "lit.int.corrupt");
                emit(&mut core, out, format!("i in {{{f}}}"), "lit.int.corrupt");
                emit(&mut core, out, format!("i in {{0..{f}}}"), "lit.int.corrupt");
                emit(&mut core, out, format!("i in {{{f} 3}}"), "lit.int.corrupt");
                emit(&mut core, out, format!("ai[{f}] == 1"), "lit.int.corrupt");
            }
        }
    }
    // byte strings: all 256 byte values in each escape form
    for b in 0..=255u8 {
        for form in [format!("\\x{b:02x}"), format!("\\x{b:02X}"), format!("\\{b:03o}"), format!("\\x{b:x}"), format!("\\{b:o}"), format!("\\x+{:x}", b & 15), format!("\\x-{:x}", b & 15), format!("\\{b}")] {
            emit(&mut core, out, format!("y == \"{form}\""), "lit.bytes.escape");
            emit(&mut core, out, format!("y == \"a{form}b\" and b"), "lit.bytes.escape");
        }
        if b < 0x80 {
            let c = b as char;
            emit(&mut core, out, format!("y == \"{c}\""), "lit.bytes.char");
            emit(&mut core, out, format!("y == \"\\{c}\""), "lit.bytes.badescape");
            emit(&mut core, out, format!("y == r\"{c}\""), "lit.bytes.raw");
        }
        emit(&mut core, out, format!("y == {b:02x}:{:02X}", b ^ 0x5a), "lit.bytes.hexpairs");
        emit(&mut core, out, format!("y == {b:02x}"), "lit.bytes.hexpairs");
        emit(&mut core, out, format!("y == +{:x}:+{:x}", b & 15, b >> 4), "lit.bytes.hexpairs.sign");
        emit(&mut core, out, format!("my[\"\\x{b:02x}\"] == \"a\""), "lit.key");
    }
    // octal escapes beyond one byte (\400 .. \777) and escapes with too few / foreign digits
    for v in 256..512u32 {
        emit(&mut core, out, format!("y == \"\\{v:o}\""), "lit.bytes.octal-overflow");
        if v % 8 == 0 {
            emit(&mut core, out, format!("y contains \"a\\{v:o}\""), "lit.bytes.octal-overflow");
            emit(&mut core, out, format!("y in {{\"\\{v:o}\"}}"), "lit.bytes.octal-overflow");
            emit(&mut core, out, format!("my[\"\\{v:o}\"] == \"a\""), "lit.bytes.octal-overflow");
        }
    }
    // random byte strings in every form, with followers
    for _ in 0..(if cfg.quick() { 150 } else { 8000 }) {
        let n = rng.below(7) as usize;
        let bs: Vec<u8> = (0..n).map(|_| *rng.pick(&[b'a', b'"', b'\\', b'#', 0u8, 0xff, 0xc3, 0xa9, b' ', b'\n', b'z', b'0'])).collect();
        let quoted: String = bs
            .iter()
            .map(|&b| {
                if b == b'"' || b == b'\\' {
                    format!("\\{}", b as char)
                } else if (0x20..0x7f).contains(&b) && rng.chance(2, 3) {
                    (b as char).to_string()
                } else {
                    esc_variants(b, &mut rng)
                }
            })
            .collect();
        for fo in followers {
            emit(&mut core, out, format!("y == \"{quoted}\"{fo}"), "lit.bytes.quoted");
        }
        if bs.len() >= 2 {
            let sep = *rng.pick(&[":", "-", "."]);
            let hp = bs.iter().map(|b| format!("{b:02x}")).collect::<Vec<_>>().join(sep);
            for fo in followers {
                emit(&mut core, out, format!("y == {hp}{fo}"), "lit.bytes.hexpairs");
            }
        }
        // raw strings: body with quotes and runs of hashes one shorter than the delimiter
        let k = rng.below(4) as usize;
        let mut body = String::new();
        for _ in 0..rng.below(6) {
            match rng.below(4) {
                0 => body.push('"'),
                1 => body.push_str(&"#".repeat(k.saturating_sub(1))),
                2 => body.push_str("a\\x41"),
                _ => body.push(*rng.pick(&['b', '\u{e9}', ' ', '\n'])),
            }
        }
        let h = "#".repeat(k);
        for fo in ["", " and b", "#", "\""] {
            emit(&mut core, out, format!("y == r{h}\"{body}\"{h}{fo}"), "lit.bytes.raw");
        }
        emit(&mut core, out, format!("y == r{h}\"{body}\"{}", "#".repeat(k.saturating_sub(1))), "lit.bytes.raw.short");
    }
    for k in [254usize, 255, 256, 300] {
        let h = "#".repeat(k);
        emit(&mut core, out, format!("y == r{h}\"x\"{h}"), "lit.bytes.raw.hashlimit");
    }
    // IP addresses, CIDRs and ranges
    let v4s = ["0.0.0.0", "255.255.255.255", "10.0.0.1", "1.2.3.4", "01.2.3.4", "1.2.3", "1.2.3.4.5", "256.1.1.1", "1.2.3.04", "10", "10.1", "::", "::1", "::ffff:1.2.3.4", "2001:db8::1", "2001:DB8::1", "1:2:3:4:5:6:7:8", "1:2:3:4:5:6:7", "1:2:3:4:5:6:7:8:9", "::1.2.3.4", "1::2::3", "ffff:ffff:ffff:ffff:ffff:ffff:ffff:ffff", "12345::", "fe80::1%eth0", ":", ":::", "1:2:3:4:5:6:1.2.3.4", "::1:2:3:4:5:6:7", "1:2:3:4:5:6:7::"];
    for a in v4s {
        for fo in ["", " and b", ")", "/", "/8"] {
            emit(&mut core, out, format!("p == {a}{fo}"), "lit.ip");
        }
        emit(&mut core, out, format!("p in {{{a}}}"), "lit.ip.set");
        for len in [0u32, 1, 8, 24, 31, 32, 33, 64, 127, 128, 129, 255, 256] {
            emit(&mut core, out, format!("p in {{{a}/{len}}}"), "lit.ip.cidr");
        }
        for b in v4s.iter().take(14) {
            emit(&mut core, out, format!("p in {{{a}..{b}}}"), "lit.ip.range");
        }
    }
    for len in 0..=32u32 {
        let m: u32 = if len == 0 { 0 } else { u32::MAX << (32 - len) };
        let a = std::net::Ipv4Addr::from(0xc0a8_0181u32 & m);
        emit(&mut core, out, format!("p in {{{a}/{len}}}"), "lit.ip.cidr.all");
        emit(&mut core, out, format!("p in {{192.168.1.129/{len}}}"), "lit.ip.cidr.hostbits");
    }
    for len in 0..=128u32 {
        let m: u128 = if len == 0 { 0 } else { u128::MAX << (128 - len) };
        let a = std::net::Ipv6Addr::from(0x2001_0db8_0000_0000_8000_0000_0000_0001u128 & m);
        emit(&mut core, out, format!("p in {{{a}/{len}}}"), "lit.ip.cidr.all");
        emit(&mut core, out, format!("p in {{2001:db8::8000:0:0:1/{len}}}"), "lit.ip.cidr.hostbits");
    }
    // indexes and keys
    for ix in ["0", "1", "4294967295", "4294967296", "2147483648", "-1", "-0", "0x10", "010", "1 ", " 1", "\"a\"", "\"\"", "\"\\xc3\\xa9\"", "\"\\xff\"", "\"\\xc3\"", "r\"a\"", "*", " * ", "**", "a", "1.5", "18446744073709551616"] {
        emit(&mut core, out, format!("ai[{ix}] == 1"), "lit.index");
        emit(&mut core, out, format!("mi[{ix}] == 1"), "lit.key");
        emit(&mut core, out, format!("any(ai[{ix}] == 1)"), "lit.index");
    }
    // list names
    for n in ["$a", "$a.b", "$.a", "$a.", "$A", "$", "$a-b", "$a_0.z9", "$ a", "$a..b"] {
        emit(&mut core, out, format!("i in {n}"), "lit.listname");
    }
}
