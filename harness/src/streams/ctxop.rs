//! C08 — operation histories on real `ExecutionContext`s (set by field / by name, get,
//! clear, clone_with, borrow_with + ops + drop, take_with, execute), with FieldRefs and
//! filters taken from the context's own scheme or from a structurally identical twin.
//!
//! op line (format documented in lean/WfModel/Drv/Ctx.lean):
//!   ctxop <hexname:ty:opt,...> <op,op,...|.>
use crate::Cfg;
use crate::codec::{parse_ty, parse_val, ty_str, unhex, val_str};
use crate::out::{Out, hex};
use crate::rng::Rng;
use std::panic::{AssertUnwindSafe, catch_unwind};
use wirefilter::{
    ExecutionContext, Filter, FunctionArgs, LhsValue, Scheme, SchemeBuilder, SetFieldValueError,
    SimpleFunctionDefinition, SimpleFunctionImpl, Type,
};

type Ctx = ExecutionContext<'static>;

fn true_fn<'a>(_: FunctionArgs<'_, 'a>) -> Option<LhsValue<'a>> {
    Some(LhsValue::Bool(true))
}

#[derive(Clone)]
pub struct FieldDecl {
    name: String,
    ty: Type,
    optional: bool,
}

fn build_scheme(fields: &[FieldDecl]) -> Scheme {
    let mut b = SchemeBuilder::new();
    for f in fields {
        if f.optional {
            b.add_optional_field(&f.name, f.ty).unwrap();
        } else {
            b.add_field(&f.name, f.ty).unwrap();
        }
    }
    b.add_function(
        "__t",
        SimpleFunctionDefinition {
            params: vec![],
            opt_params: vec![],
            return_type: Type::Bool,
            implementation: SimpleFunctionImpl::new(true_fn),
        },
    )
    .unwrap();
    b.build()
}

pub struct Env {
    own: Scheme,
    other: Scheme,
    filt_own: Filter,
    filt_other: Filter,
    decl: String,
}

impl Env {
    fn new(fields: &[FieldDecl]) -> Env {
        let own = build_scheme(fields);
        let other = build_scheme(fields);
        let filt_own = own.parse("__t()").unwrap().compile();
        let filt_other = other.parse("__t()").unwrap().compile();
        let decl = fields
            .iter()
            .map(|f| format!("{}:{}:{}", hex(f.name.as_bytes()), ty_str(&f.ty), f.optional as u8))
            .collect::<Vec<_>>()
            .join(",");
        Env { own, other, filt_own, filt_other, decl }
    }
    fn scheme(&self, sel: &str) -> &Scheme {
        if sel == "x" { &self.other } else { &self.own }
    }
}

fn set_res(r: Result<Option<LhsValue<'static>>, SetFieldValueError>) -> String {
    match r {
        Ok(Some(v)) => format!("p:{}", val_str(&v)),
        Ok(None) => "p:none".into(),
        Err(SetFieldValueError::TypeMismatch(_)) => "err-type".into(),
        Err(SetFieldValueError::SchemeMismatch(_)) => "err-scheme".into(),
        Err(SetFieldValueError::UnknownField(_)) => "err-unknown".into(),
    }
}

/// one op on one context; `None` = malformed op token
fn apply(env: &Env, ctx: &mut Ctx, parts: &[&str]) -> Option<String> {
    Some(match parts {
        ["sf", _, sel, idx, val] => {
            let i: usize = idx.parse().ok()?;
            // the value is built first (checked constructors) exactly as client code must
            match parse_val(val) {
                None => "ctor-err".into(),
                Some(v) => {
                    let f = env.scheme(sel).fields().nth(i)?;
                    set_res(ctx.set_field_value(f, v))
                }
            }
        }
        ["sn", _, name, val] => {
            let name = String::from_utf8(unhex(name)?).ok()?;
            match parse_val(val) {
                None => "ctor-err".into(),
                Some(v) => set_res(ctx.set_field_value_from_name(&name, v)),
            }
        }
        ["g", _, sel, idx] => {
            let i: usize = idx.parse().ok()?;
            let f = env.scheme(sel).fields().nth(i)?;
            match ctx.get_field_value(f) {
                Some(v) => format!("v:{}", val_str(v)),
                None => "v:none".into(),
            }
        }
        ["cl", _] => {
            ctx.clear();
            "ok".into()
        }
        ["tk", _] => {
            let taken = std::mem::replace(ctx, ExecutionContext::new(&env.own));
            *ctx = taken.take_with(|u| u);
            "ok".into()
        }
        ["ex", _, sel] => {
            let f = if *sel == "x" { &env.filt_other } else { &env.filt_own };
            match f.execute(ctx) {
                Ok(true) => "exec-ok".into(),
                Ok(false) => "exec-false".into(),
                Err(_) => "err-scheme".into(),
            }
        }
        _ => return None,
    })
}

fn guarded(env: &Env, ctx: &mut Ctx, parts: &[&str]) -> Option<String> {
    match catch_unwind(AssertUnwindSafe(|| apply(env, ctx, parts))) {
        Ok(r) => r,
        Err(_) => Some("panic".into()),
    }
}

/// runs ops[*i..] against `a` (the original, or the guard's context when `in_guard`);
/// returns at `dr` (inside a guard) or at the end. `None` = malformed op.
fn run_ops(
    env: &Env,
    ops: &[Vec<&str>],
    i: &mut usize,
    a: &mut Ctx,
    b: &mut Option<Ctx>,
    res: &mut Vec<String>,
    in_guard: bool,
) -> Option<()> {
    while *i < ops.len() {
        let parts = &ops[*i];
        *i += 1;
        match parts.as_slice() {
            ["bw"] => {
                if in_guard {
                    res.push("nop".into());
                } else {
                    res.push("ok".into());
                    // the guard lives inside the closure: `px` panics out of it, so that the
                    // guard is dropped while the stack unwinds and the panic is caught here
                    let r = catch_unwind(AssertUnwindSafe(|| {
                        let mut g = a.borrow_with(());
                        run_ops(env, ops, i, &mut g, b, res, true)
                        // guard dropped here: explicit `dr`, end of scope, or unwinding
                    }));
                    if let Ok(x) = r {
                        x?;
                    }
                }
            }
            ["px"] => {
                if in_guard {
                    res.push("ok".into());
                    std::panic::panic_any("px");
                }
                res.push("nop".into());
            }
            ["dr"] => {
                if in_guard {
                    res.push("ok".into());
                    return Some(());
                }
                res.push("nop".into());
            }
            ["cn"] => {
                *b = Some(a.clone_with(()));
                res.push("ok".into());
            }
            p if p.len() >= 2 && p[1] == "c" => match b.as_mut() {
                None => res.push("nop".into()),
                Some(c) => res.push(guarded(env, c, p)?),
            },
            p if p.len() >= 2 && p[1] == "o" => res.push(guarded(env, a, p)?),
            _ => return None,
        }
    }
    Some(())
}

fn dump(env: &Env, c: &Ctx) -> String {
    let items: Vec<String> = env
        .own
        .fields()
        .map(|f| match c.get_field_value(f) {
            Some(v) => val_str(v),
            None => "none".into(),
        })
        .collect();
    if items.is_empty() { ".".into() } else { items.join("/") }
}

pub fn execute(env: &Env, ops_tok: &str) -> Option<String> {
    let ops: Vec<Vec<&str>> = if ops_tok == "." {
        vec![]
    } else {
        ops_tok.split(',').map(|o| o.split('/').collect()).collect()
    };
    let r = catch_unwind(AssertUnwindSafe(|| {
        let mut a: Ctx = ExecutionContext::new(&env.own);
        let mut b: Option<Ctx> = None;
        let mut res = Vec::new();
        let mut i = 0;
        run_ops(env, &ops, &mut i, &mut a, &mut b, &mut res, false)?;
        let (bs, eq) = match &b {
            Some(c) => (dump(env, c), if a == *c { "1" } else { "0" }),
            None => ("-".to_string(), "-"),
        };
        Some(format!(
            "r={} A={} B={} eq={}",
            if res.is_empty() { ".".to_string() } else { res.join(",") },
            dump(env, &a),
            bs,
            eq
        ))
    }));
    match r {
        Ok(x) => x,
        Err(_) => Some("panic".into()),
    }
}

fn emit(out: &mut Out, env: &Env, ops: &[String], tag: &str) {
    let ops_tok = if ops.is_empty() { ".".to_string() } else { ops.join(",") };
    let line = format!("ctxop {} {}", env.decl, ops_tok);
    let ans = execute(env, &ops_tok).unwrap_or_else(|| "bad-op".into());
    let rpart = ans.split(' ').next().unwrap_or("");
    let ok_set = rpart.contains("p:");
    let rejected = rpart.contains("err-") || rpart.contains("ctor-err");
    let structural = ops.iter().any(|o| o == "bw" || o == "cn");
    let mut tags = vec![tag.to_string(), format!("len{}", ops.len().min(9))];
    if ok_set && rejected {
        tags.push("set-ok+rejected".into());
    }
    if rpart.contains("err-type") {
        tags.push("err-type".into());
    }
    if rpart.contains("err-scheme") {
        tags.push("err-scheme".into());
    }
    if rpart.contains("ctor-err") {
        tags.push("ctor-err".into());
    }
    if ops.iter().any(|o| o == "bw") {
        tags.push("guard".into());
    }
    if ops.iter().any(|o| o == "cn") {
        tags.push("clone".into());
    }
    let tr: Vec<&str> = tags.iter().map(|s| s.as_str()).collect();
    // non-trivial: a rejected set next to an accepted one, or a guard / clone in the history
    let nt = (ok_set && rejected) || (structural && ok_set);
    out.case(&line, &ans, if nt { Some(&line) } else { None }, &tr);
}

fn enumerate(cfg: Cfg, out: &mut Out, env: &Env, alphabet: &[String], len: usize, counter: &mut u64, tag: &str) {
    let n = alphabet.len() as u64;
    let total = n.pow(len as u32);
    for idx in 0..total {
        let mine = cfg.mine(*counter);
        *counter += 1;
        if !mine {
            continue;
        }
        let mut k = idx;
        let mut ops = Vec::with_capacity(len);
        for _ in 0..len {
            ops.push(alphabet[(k % n) as usize].clone());
            k /= n;
        }
        emit(out, env, &ops, tag);
    }
}

fn small_fields() -> Vec<FieldDecl> {
    vec![
        FieldDecl { name: "n".into(), ty: Type::Int, optional: false },
        FieldDecl { name: "a".into(), ty: Type::Array(Type::Bytes.into()), optional: false },
        FieldDecl {
            name: "m".into(),
            ty: Type::Map(Type::Array(Type::Int.into()).into()),
            optional: true,
        },
    ]
}

/// value pool per field of the small scheme: (text, well-typed?)
fn pool(field: usize) -> Vec<&'static str> {
    match field {
        0 => vec!["i1", "i-7", "b1", "y31", "aI[i1]"],
        1 => vec![
            "aY[y61;y62]",      // good
            "aY[]",             // good, empty
            "y61",              // wrong primitive, no container
            "aI[i1]",           // right container, wrong element type
            "aAY[aY[y61]]",     // right shape, wrong depth
            "mY{61=y61}",       // map instead of array
            "aY[y61;i1]",       // heterogeneous: constructor refuses
            "aY[aY[]]",         // element one level too deep: constructor refuses
        ],
        _ => vec![
            "mAI{61=aI[i1;i2];62=aI[]}", // good
            "mAI{}",                     // good, empty
            "mAI{62=aI[];61=aI[i1];61=aI[i3]}", // good: unsorted + duplicate key (last wins)
            "mI{61=i1}",                 // wrong depth
            "mAY{61=aY[y61]}",           // wrong element type at depth 2
            "aAI[aI[i1]]",               // array instead of map
            "mAI{61=aY[]}",              // constructor refuses (entry type)
            "mAI{61=aI[y61]}",           // constructor refuses (nested element)
        ],
    }
}

fn core_alphabet() -> Vec<String> {
    [
        "sf/o/s/0/i1",
        "sf/o/s/0/b1",
        "sf/o/s/1/aY[y61;y62]",
        "sf/o/s/1/aY[]",
        "sf/o/s/1/aI[i1]",
        "sf/o/s/1/aAY[aY[y61]]",
        "sf/o/s/1/aY[y61;i1]",
        "sf/o/x/1/aY[y61;y62]",
        "sn/o/61/aY[y63]",
        "g/o/s/1",
        "cl/o",
        "cn",
        "sf/c/s/1/aY[y64]",
        "bw",
        "dr",
        "px",
        "ex/o/x",
    ]
    .iter()
    .map(|s| s.to_string())
    .collect()
}

fn wide_alphabet() -> Vec<String> {
    let mut v = Vec::new();
    for f in 0..3 {
        for val in pool(f) {
            v.push(format!("sf/o/s/{f}/{val}"));
        }
        // first good and first bad value: on the clone, and through the twin scheme
        let p = pool(f);
        v.push(format!("sf/c/s/{f}/{}", p[0]));
        v.push(format!("sf/c/s/{f}/{}", p[3]));
        v.push(format!("sf/o/x/{f}/{}", p[0]));
        v.push(format!("sf/c/x/{f}/{}", p[3]));
        // a value of another field's type
        v.push(format!("sf/o/s/{f}/{}", pool((f + 1) % 3)[0]));
    }
    for (name, f) in [("n", 0usize), ("a", 1), ("m", 2), ("z", 1), ("A", 1), ("__t", 0)] {
        let p = pool(f);
        v.push(format!("sn/o/{}/{}", hex(name.as_bytes()), p[1]));
        v.push(format!("sn/o/{}/{}", hex(name.as_bytes()), p[3]));
        v.push(format!("sn/c/{}/{}", hex(name.as_bytes()), p[0]));
    }
    for t in ["o", "c"] {
        for f in 0..3 {
            v.push(format!("g/{t}/s/{f}"));
        }
        v.push(format!("g/{t}/x/1"));
        v.push(format!("cl/{t}"));
        v.push(format!("tk/{t}"));
        v.push(format!("ex/{t}/s"));
        v.push(format!("ex/{t}/x"));
    }
    v.push("cn".into());
    v.push("bw".into());
    v.push("dr".into());
    v.push("px".into());
    v
}

// ---- random values for the rich scheme ---------------------------------------------------

fn rich_fields() -> Vec<FieldDecl> {
    let t = |name: &str, ty: Type, optional: bool| FieldDecl { name: name.into(), ty, optional };
    vec![
        t("b", Type::Bool, false),
        t("i", Type::Int, true),
        t("ip", Type::Ip, false),
        t("s", Type::Bytes, false),
        t("http.h", Type::Map(Type::Bytes.into()), true),
        t("http.hs", Type::Map(Type::Array(Type::Bytes.into()).into()), false),
        t("aa", Type::Array(Type::Array(Type::Int.into()).into()), false),
        t("mm", Type::Map(Type::Map(Type::Bool.into()).into()), true),
        t("ai", Type::Array(Type::Ip.into()), false),
    ]
}

fn gen_good(ty: &Type, rng: &mut Rng, depth: u32) -> String {
    match ty {
        Type::Bool => if rng.chance(1, 2) { "b1".into() } else { "b0".into() },
        Type::Int => match rng.below(6) {
            0 => format!("i{}", i64::MIN),
            1 => format!("i{}", i64::MAX),
            _ => format!("i{}", rng.range(-3, 3)),
        },
        Type::Ip => {
            if rng.chance(1, 2) {
                format!("4:{}", rng.below(1 << 32))
            } else {
                format!("6:{}", ((rng.next() as u128) << 64) | rng.next() as u128)
            }
        }
        Type::Bytes => {
            let n = rng.below(4) as usize;
            let bs: Vec<u8> = (0..n).map(|_| rng.below(256) as u8).collect();
            format!("y{}", hex(&bs))
        }
        Type::Array(t) => {
            let t: Type = (*t).into();
            let n = if depth > 2 { rng.below(2) } else { rng.below(4) };
            let items: Vec<String> = (0..n).map(|_| gen_good(&t, rng, depth + 1)).collect();
            format!("a{}[{}]", ty_str(&t), items.join(";"))
        }
        Type::Map(t) => {
            let t: Type = (*t).into();
            let n = if depth > 2 { rng.below(2) } else { rng.below(4) };
            let items: Vec<String> = (0..n)
                .map(|_| {
                    // few distinct keys: duplicates and arbitrary order happen
                    let k = [b'a' + rng.below(3) as u8];
                    let k = if rng.chance(1, 6) { vec![] } else { k.to_vec() };
                    format!("{}={}", hex(&k), gen_good(&t, rng, depth + 1))
                })
                .collect();
            format!("m{}{{{}}}", ty_str(&t), items.join(";"))
        }
    }
}

/// a type that differs from `ty` somewhere: other primitive at the bottom, a layer added
/// or removed, or array/map swapped at some depth
fn mutate_ty(ty: &Type, rng: &mut Rng) -> Type {
    let prims = [Type::Bool, Type::Int, Type::Ip, Type::Bytes];
    match ty {
        Type::Array(t) | Type::Map(t) => {
            let inner: Type = (*t).into();
            let is_arr = matches!(ty, Type::Array(_));
            match rng.below(4) {
                0 => inner, // one layer less
                1 => {
                    // swap the constructor here
                    if is_arr { Type::Map(inner.into()) } else { Type::Array(inner.into()) }
                }
                2 => {
                    // one layer more
                    if is_arr { Type::Array((*ty).into()) } else { Type::Map((*ty).into()) }
                }
                _ => {
                    let m = mutate_ty(&inner, rng);
                    if is_arr { Type::Array(m.into()) } else { Type::Map(m.into()) }
                }
            }
        }
        p => {
            if rng.chance(1, 4) {
                Type::Array((*p).into())
            } else {
                loop {
                    let q = *rng.pick(&prims);
                    if q != *p {
                        return q;
                    }
                }
            }
        }
    }
}

/// a container text of type `ty` with one element of a foreign type (constructor refuses);
/// falls back to a mutated type for primitives
fn gen_hetero(ty: &Type, rng: &mut Rng) -> String {
    match ty {
        Type::Array(t) => {
            let t: Type = (*t).into();
            let bad = gen_good(&mutate_ty(&t, rng), rng, 2);
            let good = gen_good(&t, rng, 2);
            if rng.chance(1, 2) {
                format!("a{}[{};{}]", ty_str(&t), good, bad)
            } else {
                format!("a{}[{}]", ty_str(&t), bad)
            }
        }
        Type::Map(t) => {
            let t: Type = (*t).into();
            let bad = gen_good(&mutate_ty(&t, rng), rng, 2);
            let good = gen_good(&t, rng, 2);
            format!("m{}{{61={};62={}}}", ty_str(&t), good, bad)
        }
        p => gen_good(&mutate_ty(p, rng), rng, 1),
    }
}

fn gen_val(ty: &Type, rng: &mut Rng) -> String {
    match rng.below(10) {
        0..=5 => gen_good(ty, rng, 0),
        6..=8 => gen_good(&mutate_ty(ty, rng), rng, 0),
        _ => gen_hetero(ty, rng),
    }
}

fn random_op(fields: &[FieldDecl], rng: &mut Rng) -> String {
    let t = if rng.chance(1, 4) { "c" } else { "o" };
    let f = rng.below(fields.len() as u64) as usize;
    match rng.below(20) {
        0..=7 => {
            let s = if rng.chance(1, 8) { "x" } else { "s" };
            format!("sf/{t}/{s}/{f}/{}", gen_val(&fields[f].ty, rng))
        }
        8..=10 => {
            let name = match rng.below(8) {
                0 => "nope".to_string(),
                1 => fields[f].name.to_uppercase(),
                2 => format!("{}.x", fields[f].name),
                _ => fields[f].name.clone(),
            };
            format!("sn/{t}/{}/{}", hex(name.as_bytes()), gen_val(&fields[f].ty, rng))
        }
        11..=12 => format!("g/{t}/{}/{f}", if rng.chance(1, 10) { "x" } else { "s" }),
        13 => format!("cl/{t}"),
        14 => "cn".into(),
        15..=16 => "bw".into(),
        17 => if rng.chance(1, 2) { "dr".into() } else { "px".into() },
        18 => format!("tk/{t}"),
        _ => format!("ex/{t}/{}", if rng.chance(1, 2) { "x" } else { "s" }),
    }
}

fn deep_typed(v: &LhsValue<'_>, ty: Type) -> bool {
    use wirefilter::GetType;
    if v.get_type() != ty {
        return false;
    }
    match v {
        LhsValue::Array(a) => {
            let t = a.value_type();
            Type::Array(t.into()) == ty && a.iter().all(|e| deep_typed(e, t))
        }
        LhsValue::Map(m) => {
            let t = m.value_type();
            Type::Map(t.into()) == ty && m.iter().all(|(_, e)| deep_typed(e, t))
        }
        _ => true,
    }
}

/// The typed wrappers (`TypedArray<V>`, `TypedMap<V>`, nested in every combination) are a
/// third way of constructing container values: what they produce must be the value the
/// checked constructors produce — homogeneous at every level, of exactly the nested type.
fn typed_wrappers(out: &mut Out) {
    use wirefilter::{Array, Map, TypedArray, TypedMap};
    fn k(s: &str) -> Box<[u8]> {
        s.as_bytes().to_vec().into_boxed_slice()
    }
    let ta = |xs: &[i64]| TypedArray::from_iter(xs.iter().copied());
    let tm = |xs: &[(&str, i64)]| TypedMap::from_iter(xs.iter().map(|(a, b)| (k(a), *b)));
    let cases: Vec<(&str, LhsValue<'static>, &str)> = vec![
        ("AI", LhsValue::Array(Array::from(ta(&[1, 2]))), "aI[i1;i2]"),
        ("MI", LhsValue::Map(Map::from(tm(&[("a", 1), ("b", 2)]))), "mI{61=i1;62=i2}"),
        ("AAI", LhsValue::Array(Array::from(TypedArray::from_iter([ta(&[1, 2]), ta(&[])]))), "aAI[aI[i1;i2];aI[]]"),
        ("AMI", LhsValue::Array(Array::from(TypedArray::from_iter([tm(&[("a", 1), ("b", 2)]), tm(&[("c", 3)])]))), "aMI[mI{61=i1;62=i2};mI{63=i3}]"),
        ("MAI", LhsValue::Map(Map::from(TypedMap::from_iter([(k("x"), ta(&[1])), (k("y"), ta(&[]))]))), "mAI{78=aI[i1];79=aI[]}"),
        ("MMI", LhsValue::Map(Map::from(TypedMap::from_iter([(k("x"), tm(&[("a", 1)])), (k("y"), tm(&[]))]))), "mMI{78=mI{61=i1};79=mI{}}"),
        (
            "AAMI",
            LhsValue::Array(Array::from(TypedArray::from_iter([TypedArray::from_iter([tm(&[("a", 1)])]), TypedArray::from_iter([])]))),
            "aAMI[aMI[mI{61=i1}];aMI[]]",
        ),
        ("AMI", LhsValue::Array(Array::from(TypedArray::<TypedMap<i64>>::from_iter([]))), "aMI[]"),
    ];
    for (ty, v, same_as) in cases {
        let op = format!("oracle typed-wrapper {ty} {same_as}");
        let t = parse_ty(ty).expect("type");
        let expected = parse_val(same_as).expect("value");
        let mut why = None;
        if !deep_typed(&v, t) {
            why = Some(format!("value built through the typed wrappers is not a homogeneous {ty}: {}", val_str(&v)));
        } else if v != expected {
            why = Some(format!("typed wrappers gave {}, the checked constructors {}", val_str(&v), val_str(&expected)));
        } else {
            // and a context field of exactly that type takes it, a field of a sibling type does not
            let mut b = SchemeBuilder::new();
            b.add_field("f", t).unwrap();
            b.add_field("g", if ty == "AI" { Type::Array(Type::Bytes.into()) } else { Type::Array(Type::Int.into()) }).unwrap();
            let s = b.build();
            let mut c: Ctx = ExecutionContext::new(&s);
            if c.set_field_value_from_name("f", v.clone()).is_err() {
                why = Some(format!("a field of type {ty} refuses the value built through the typed wrappers"));
            } else if ty != "AI" && c.set_field_value_from_name("g", v.clone()).is_ok() {
                why = Some(format!("a field of another type accepts the {ty} value built through the typed wrappers"));
            }
        }
        if let Some(w) = &why {
            out.impl_failure(&op, w);
        }
        out.case(&op, if why.is_none() { "ok" } else { "mismatch" }, Some(&op), &["typed-wrapper"]);
    }
}

pub fn run(cfg: Cfg, out: &mut Out) {
    std::panic::set_hook(Box::new(|_| {}));
    if cfg.shard == 0 {
        typed_wrappers(out);
    }
    let small = small_fields();
    let env = Env::new(&small);
    let mut counter = 0u64;

    // (A) core alphabet, exhaustive
    let core = core_alphabet();
    let core_max = if cfg.quick() { 4 } else { 5 };
    for len in 0..=core_max {
        enumerate(cfg, out, &env, &core, len, &mut counter, "core-exhaustive");
    }
    // thorough: length 6 over the ten ops that change or expose state
    if !cfg.quick() {
        let ten: Vec<String> = [0usize, 2, 4, 6, 7, 10, 11, 12, 13, 14]
            .iter()
            .map(|&k| core[k].clone())
            .collect();
        enumerate(cfg, out, &env, &ten, 6, &mut counter, "core10-exhaustive");
    }

    // (B) wide alphabet (every field x every pool value, both targets, both schemes, names)
    let wide = wide_alphabet();
    let wide_max = if cfg.quick() { 2 } else { 3 };
    for len in 1..=wide_max {
        enumerate(cfg, out, &env, &wide, len, &mut counter, "wide-exhaustive");
    }

    // (C) random histories over the wide alphabet
    let mut rng = cfg.rng();
    let n_wide = cfg.share(if cfg.quick() { 12_000 } else { 400_000 });
    for _ in 0..n_wide {
        let len = 3 + rng.below(10) as usize;
        let ops: Vec<String> = (0..len).map(|_| rng.pick(&wide).clone()).collect();
        emit(out, &env, &ops, "wide-random");
    }

    // (D) long random histories over a richer scheme with generated values
    let rich = rich_fields();
    let renv = Env::new(&rich);
    let n_rich = cfg.share(if cfg.quick() { 2_000 } else { 60_000 });
    for _ in 0..n_rich {
        let len = 20 + rng.below(41) as usize;
        let ops: Vec<String> = (0..len).map(|_| random_op(&rich, &mut rng)).collect();
        emit(out, &renv, &ops, "rich-random");
    }
}

pub fn replay(op: &str) -> Option<String> {
    std::panic::set_hook(Box::new(|_| {}));
    let toks: Vec<&str> = op.split(' ').filter(|t| !t.is_empty()).collect();
    if toks.len() != 3 || toks[0] != "ctxop" {
        return None;
    }
    let mut fields = Vec::new();
    for d in toks[1].split(',') {
        let p: Vec<&str> = d.split(':').collect();
        if p.len() != 3 {
            return None;
        }
        fields.push(FieldDecl {
            name: String::from_utf8(unhex(p[0])?).ok()?,
            ty: parse_ty(p[1])?,
            optional: p[2] == "1",
        });
    }
    let env = Env::new(&fields);
    // a malformed op (e.g. a FieldRef index the scheme does not have) cannot be run
    execute(&env, toks[2])
}
