//! C10 — `b contains <literal>` through real filters: parse -> compile -> execute, with the
//! SIMD anchor forced through the engine's verification hook so that EVERY anchor position
//! 1..len-1 is exercised, and the whole needle x haystack sweep repeated in a child
//! process with `WIREFILTER_USE_AVX2=0` (the `USE_AVX2` latch is per process).
//!
//! op line:  contains <hex haystack> <hex needle> <anchor|-> <avx 0|1>
//!   anchor = position forced through the hook and confirmed by the hook's query
//!            (`-`: not forced / not applicable: the engine used its RNG or a non-SIMD path)
//!   avx    = 1 iff this process compiles `contains` to the AVX2 searchers
//! answer:   true | false | err (parse/exec error) | panic
use super::hooks;
use crate::out::{Out, hex};
use crate::rng::Rng;
use crate::{Cfg, Tier};
use std::collections::BTreeSet;
use std::panic::{AssertUnwindSafe, catch_unwind};
use wirefilter::{ExecutionContext, Filter, Scheme, SchemeBuilder, Type};

const CHILD_ENV: &str = "WFH_CONTAINS_CHILD";
const MAX_HAY: usize = 300;

fn scheme() -> Scheme {
    let mut b = SchemeBuilder::new();
    b.add_field("b", Type::Bytes).unwrap();
    b.build()
}

/// needle literal: quoted (with `\xHH` escapes) or, for >= 2 bytes, colon-separated hex
fn literal(p: &[u8], hex_form: bool) -> String {
    if p.len() >= 2 && hex_form {
        return p.iter().map(|x| format!("{x:02x}")).collect::<Vec<_>>().join(":");
    }
    let mut t = String::from("\"");
    for &c in p {
        if c == b'"' || c == b'\\' {
            t.push('\\');
            t.push(c as char);
        } else if (0x20..0x7f).contains(&c) {
            t.push(c as char);
        } else {
            t.push_str(&format!("\\x{c:02x}"));
        }
    }
    t.push('"');
    t
}

/// parse + compile `b contains <needle>` with the anchor override set to `anchor`;
/// returns the filter and what the hook says was selected
fn compile(s: &Scheme, p: &[u8], anchor: Option<usize>, hex_form: bool) -> Result<(Filter, Option<hooks::Selected>), String> {
    let text = format!("b contains {}", literal(p, hex_form));
    hooks::set_contains_anchor(anchor);
    hooks::reset_last_contains_searcher();
    let r = catch_unwind(AssertUnwindSafe(|| s.parse(&text).map(|ast| ast.compile())));
    hooks::set_contains_anchor(None);
    match r {
        Ok(Ok(f)) => Ok((f, hooks::last_contains_searcher())),
        Ok(Err(_)) => Err("err".to_string()),
        Err(_) => Err("panic".to_string()),
    }
}

fn exec(s: &Scheme, f: &Filter, hay: &[u8]) -> String {
    let r = catch_unwind(AssertUnwindSafe(|| {
        let mut ctx = ExecutionContext::new(s);
        ctx.set_field_value(s.get_field("b").unwrap(), hay.to_vec()).unwrap();
        f.execute(&ctx)
    }));
    match r {
        Ok(Ok(b)) => b.to_string(),
        Ok(Err(_)) => "err".to_string(),
        Err(_) => "panic".to_string(),
    }
}

/// does this process take the AVX2 path? (probe compile of a 2-byte needle)
fn probe_avx(s: &Scheme) -> bool {
    [&b"ab"[..], &b"abababababababababab"[..]]
        .iter()
        .any(|p| matches!(compile(s, p, None, false), Ok((_, Some(sel))) if sel.simd))
}

fn flip(c: u8, alpha: (u8, u8)) -> u8 {
    if c == alpha.0 { alpha.1 } else { alpha.0 }
}

/// needles of one length over a 2-letter alphabet: periodic / constant / random shapes
fn needles(len: usize, alpha: (u8, u8), rng: &mut Rng, per_len: usize) -> Vec<Vec<u8>> {
    let (x, y) = alpha;
    if len == 0 {
        return vec![vec![]];
    }
    let mut v: Vec<Vec<u8>> = Vec::new();
    // random (first: always present)
    v.push((0..len).map(|_| if rng.chance(1, 2) { x } else { y }).collect());
    // all the same letter except the last byte
    let mut p = vec![x; len];
    *p.last_mut().unwrap() = y;
    v.push(p);
    // period 2
    v.push((0..len).map(|i| if i % 2 == 0 { x } else { y }).collect());
    // constant
    v.push(vec![x; len]);
    // same letter except the first byte
    let mut p = vec![x; len];
    p[0] = y;
    v.push(p);
    let mut seen = BTreeSet::new();
    v.retain(|p| seen.insert(p.clone()));
    v.truncate(per_len.max(1));
    v
}

/// haystack lengths worth looking at for a needle of length `len`: `end = L - len + 1`
/// decides which vector width sliceslice uses (2/4/8/16/32 lanes) and how long the
/// overlapping remainder chunk is
fn hay_lens(len: usize, thorough: bool) -> Vec<usize> {
    let mut s = BTreeSet::new();
    for l in [0usize, 1, 2, 15, 16, 17, 31, 32, 33, 63, 64, 65, 128, 255, 256, 299, 300] {
        s.insert(l);
    }
    if len > 0 {
        s.insert(len - 1);
    }
    let ends: &[usize] = &[1, 2, 3, 4, 5, 7, 8, 9, 15, 16, 17, 24, 31, 32, 33, 34, 47, 48, 49, 63, 64, 65, 66, 95, 96, 97, 129, 160, 200];
    for e in ends {
        s.insert(len + e - 1);
    }
    if thorough {
        for e in 1..=72usize {
            s.insert(len + e - 1);
        }
        let mut l = 100;
        while l <= MAX_HAY {
            s.insert(l);
            l += 7;
        }
    }
    s.into_iter().filter(|l| *l <= MAX_HAY).collect()
}

/// offsets at which to plant the needle in a haystack of length `l`
fn offsets(l: usize, len: usize) -> Vec<usize> {
    if len > l {
        return vec![];
    }
    let end = l - len + 1; // valid offsets 0..end
    let mut s = BTreeSet::new();
    let mut add = |o: i64| {
        if o >= 0 && (o as usize) < end {
            s.insert(o as usize);
        }
    };
    let e = end as i64;
    let n = len as i64;
    for o in [0, 1, e - 2, e - 1] {
        add(o);
    }
    for b in [16i64, 32, 64] {
        // needle straddling the block boundary b of the haystack
        for o in [b - 1, b - n + 1, b - n / 2, b - n, b] {
            add(o);
        }
    }
    // chunk structure of the candidate range: last full chunk / overlapping remainder chunk
    for lanes in [2i64, 4, 8, 16, 32] {
        let full = (e / lanes) * lanes;
        for o in [full - 1, full, e - lanes - 1, e - lanes, e - lanes + 1] {
            add(o);
        }
    }
    s.into_iter().collect()
}

struct Hay {
    bytes: Vec<u8>,
    tag: &'static str,
    always: bool,
}

/// fillers: 0 = all p[0]; 1 = all "other letter"; 2 = random; 3 = tiles of a near-miss copy
/// of the needle (first byte and anchor byte kept, another byte flipped => false candidates)
fn filler(mode: u8, l: usize, p: &[u8], k: usize, alpha: (u8, u8), rng: &mut Rng) -> Vec<u8> {
    let first = p.first().copied().unwrap_or(alpha.0);
    match mode {
        0 => vec![first; l],
        1 => vec![flip(first, alpha); l],
        2 => (0..l).map(|_| if rng.chance(1, 2) { alpha.0 } else { alpha.1 }).collect(),
        _ => {
            if p.is_empty() {
                return vec![alpha.1; l];
            }
            let mut q = p.to_vec();
            // flip a byte that is neither the first nor the anchor byte if there is one
            let j = (1..p.len()).rev().find(|j| *j != k).unwrap_or(p.len() - 1);
            q[j] = flip(q[j], alpha);
            (0..l).map(|i| q[i % q.len()]).collect()
        }
    }
}

fn haystacks(p: &[u8], k: usize, alpha: (u8, u8), thorough: bool, rng: &mut Rng) -> Vec<Hay> {
    let len = p.len();
    let mut v = Vec::new();
    for l in hay_lens(len, thorough) {
        for mode in 0..4u8 {
            v.push(Hay { bytes: filler(mode, l, p, k, alpha, rng), tag: "hay.filler", always: mode != 2 && l % 3 == 0 });
        }
        if len == 0 || len > l {
            continue;
        }
        let offs = offsets(l, len);
        for (oi, &o) in offs.iter().enumerate() {
            let edge = o == 0 || o + len == l;
            for mode in [1u8, 2, 3] {
                let mut h = filler(mode, l, p, k, alpha, rng);
                h[o..o + len].copy_from_slice(p);
                let tag = if o == 0 {
                    "hay.at0"
                } else if o + len == l {
                    "hay.atend"
                } else if (o / 16 != (o + len - 1) / 16) || o % 16 == 0 {
                    "hay.straddle16"
                } else {
                    "hay.inside"
                };
                v.push(Hay { bytes: h, tag, always: edge && mode == 1 });
            }
            // near-misses: a copy differing in exactly the first / last / anchor byte
            if edge || oi % 2 == 0 {
                for (j, tag) in [(0usize, "hay.miss.first"), (len - 1, "hay.miss.last"), (k.min(len - 1), "hay.miss.anchor")] {
                    for mode in [1u8, 3] {
                        let mut h = filler(mode, l, p, k, alpha, rng);
                        h[o..o + len].copy_from_slice(p);
                        h[o + j] = flip(h[o + j], alpha);
                        v.push(Hay { bytes: h, tag, always: false });
                    }
                }
            }
        }
    }
    v
}

struct Sweep<'a> {
    s: &'a Scheme,
    avx: bool,
    quick: bool,
    /// target number of haystacks per (needle, anchor) unit (the family is thinned by a
    /// rotating stride; edge placements and absent fillers are always kept)
    target: usize,
    rot: usize,
}

impl Sweep<'_> {
    /// run one compiled (needle, anchor) against its haystack family
    fn run_one(&mut self, out: &mut Out, p: &[u8], anchor: Option<usize>, hex_form: bool, rng: &mut Rng, mode_tag: &str) {
        let len = p.len();
        let (f, sel) = match compile(self.s, p, anchor, hex_form) {
            Ok(x) => x,
            Err(e) => {
                // a needle literal that does not compile is a disagreement with the model
                let op = format!("contains - {} {} {}", hex(p), anchor.map_or("-".into(), |k| k.to_string()), self.avx as u8);
                out.case(&op, &e, None, &["compile.failed"]);
                return;
            }
        };
        let sel = match sel {
            Some(s) => s,
            None => {
                out.impl_failure(&format!("compile contains {}", hex(p)), "verification hook did not record a searcher selection");
                return;
            }
        };
        out.tag(&format!("searcher.{}", sel.kind));
        // the op carries the anchor only when the hook confirms it was used
        let in_range = anchor.is_some_and(|k| k >= 1 && k < len);
        let mut anchor_tok = "-".to_string();
        if sel.simd {
            if in_range {
                if sel.position == anchor && sel.forced {
                    anchor_tok = anchor.unwrap().to_string();
                    out.tag("anchor.forced");
                } else {
                    out.impl_failure(&format!("compile contains {} anchor {:?}", hex(p), anchor), &format!("anchor override not honoured: hook reports {:?}", sel));
                }
            } else {
                // unset or out-of-range override: the engine must have drawn 1 <= pos < len
                match sel.position {
                    Some(pos) if pos >= 1 && pos < len && !sel.forced => out.tag(if anchor.is_some() { "anchor.fallback_out_of_range" } else { "anchor.random" }),
                    _ => out.impl_failure(&format!("compile contains {} anchor {:?}", hex(p), anchor), &format!("random anchor out of 1..len: hook reports {:?}", sel)),
                }
            }
        }
        if sel.simd != (self.avx && len >= 2) {
            out.impl_failure(&format!("compile contains {}", hex(p)), &format!("searcher kind {} inconsistent with the process-wide AVX2 latch ({})", sel.kind, self.avx));
        }
        let k = anchor.filter(|_| in_range).or(sel.position).unwrap_or(1);
        let hays = haystacks(p, k, alpha_of(p), !self.quick, rng);
        // the short-needle shortcuts have few (needle, anchor) units: run all their haystacks
        let stride = if len >= 2 { hays.len().div_ceil(self.target).max(1) } else { 1 };
        self.rot += 1;
        let kind_tag = format!("exec.{}", sel.kind);
        for (i, h) in hays.iter().enumerate() {
            if !(h.always || (i + self.rot) % stride == 0) {
                continue;
            }
            let ans = exec(self.s, &f, &h.bytes);
            let op = format!("contains {} {} {} {}", hex(&h.bytes), hex(p), anchor_tok, self.avx as u8);
            let nontrivial = len >= 2 && h.bytes.len() > len;
            let lanes = if len >= 2 && h.bytes.len() > len {
                match h.bytes.len() - len + 1 {
                    0..=3 => "lanes.2",
                    4..=7 => "lanes.4",
                    8..=15 => "lanes.8",
                    16..=31 => "lanes.16",
                    _ => "lanes.32",
                }
            } else {
                "lanes.none"
            };
            out.case(&op, &ans, if nontrivial { Some(&op) } else { None }, &[h.tag, &kind_tag, lanes, mode_tag, if ans == "true" { "ans.true" } else { "ans.other" }]);
        }
    }
}

fn alpha_of(p: &[u8]) -> (u8, u8) {
    for a in ALPHABETS {
        if p.iter().all(|c| *c == a.0 || *c == a.1) && !p.is_empty() && (p[0] == a.0 || p[0] == a.1) {
            return a;
        }
    }
    ALPHABETS[0]
}

/// 2-letter alphabets: ASCII, the byte extremes (sign extension in `splat(a as i8)`), and a
/// pair differing in one bit across the 0x7f/0x80 border
const ALPHABETS: [(u8, u8); 3] = [(b'a', b'b'), (0x00, 0xff), (0x7f, 0x80)];

fn sweep(cfg: Cfg, out: &mut Out, s: &Scheme, avx: bool) {
    let quick = cfg.quick();
    let max_len = if quick { 20 } else { 40 };
    let per_len = if quick { 2 } else { 3 };
    let mut rng = cfg.rng();
    let mut sw = Sweep { s, avx, quick, target: match (quick, avx) {
            (true, true) => 330,
            (true, false) => 600,
            (false, true) => 1500,
            (false, false) => 4000,
        }, rot: cfg.seed as usize };
    let mut unit = 0u64;
    for len in 0..=max_len {
        let alpha = ALPHABETS[(len + cfg.seed as usize) % ALPHABETS.len()];
        // every shard must draw the same needles: fork a per-length generator from the seed only
        let mut nrng = Rng::new(cfg.seed.wrapping_mul(7919).wrapping_add(len as u64));
        let mut ps = needles(len, alpha, &mut nrng, per_len);
        if len >= 2 {
            // one extra needle over the plain ASCII alphabet when this length got another one
            if alpha != ALPHABETS[0] {
                ps.push(needles(len, ALPHABETS[0], &mut nrng, 1).remove(0));
            }
        }
        for (pi, p) in ps.iter().enumerate() {
            let hex_form = (pi + len) % 2 == 1;
            if len < 2 || !avx {
                // no anchor on these paths: one pass, plus a recompilation (second pass
                // under an override that must be ignored)
                unit += 1;
                if cfg.mine(unit) {
                    sw.run_one(out, p, None, hex_form, &mut rng, "pass.plain");
                    if pi == 0 {
                        sw.run_one(out, p, Some(1), !hex_form, &mut rng, "pass.recompiled");
                    }
                }
                continue;
            }
            for k in 1..len {
                unit += 1;
                if cfg.mine(unit) {
                    sw.run_one(out, p, Some(k), hex_form, &mut rng, "pass.anchor");
                }
            }
            // the engine's own RNG (no override), and overrides that must be ignored
            unit += 1;
            if cfg.mine(unit) {
                sw.run_one(out, p, None, hex_form, &mut rng, "pass.random_anchor");
                if pi == 0 {
                    sw.run_one(out, p, Some(len), hex_form, &mut rng, "pass.override_out_of_range");
                    sw.run_one(out, p, Some(0), hex_form, &mut rng, "pass.override_out_of_range");
                }
            }
        }
    }
    // needles that are different byte strings but look alike under a lossy rendering (they
    // differ only in bytes that are not UTF-8), compiled one after another in this process and
    // only then executed: anything remembered from one compilation must not leak into another
    if cfg.shard == 0 {
        let families: [&[&[u8]]; 5] = [
            &[b"caf\xe9", b"caf\xe8", b"caf\xc3\xa9", b"caf\xef\xbf\xbd"],
            &[b"\xff\xfe", b"\xfe\xff", b"\xff\xff", b"\xef\xbf\xbd\xef\xbf\xbd"],
            &[b"\x80abc", b"\x81abc", b"\xbfabc"],
            &[b"ab\xc3", b"ab\xc4", b"ab\xe2\x82"],
            &[b"x\xf0\x9f\x98y", b"x\xf0\x9f\x99y", b"x\xf0\x9f\x98\x80y"],
        ];
        for fam in families {
            let compiled: Vec<Option<Filter>> = fam.iter().enumerate().map(|(i, p)| compile(s, p, None, i % 2 == 1).ok().map(|x| x.0)).collect();
            for (i, p) in fam.iter().enumerate() {
                let Some(f) = &compiled[i] else {
                    let op = format!("contains - {} - {}", hex(p), avx as u8);
                    out.case(&op, "compile-failed", None, &["compile.failed"]);
                    continue;
                };
                for q in fam.iter() {
                    for (pre, post) in [(&b""[..], &b""[..]), (&b"zz"[..], &b"zz"[..]), (&b"\xff"[..], &b"caf"[..])] {
                        let mut hay = pre.to_vec();
                        hay.extend_from_slice(q);
                        hay.extend_from_slice(post);
                        let ans = exec(s, f, &hay);
                        let op = format!("contains {} {} - {}", hex(&hay), hex(p), avx as u8);
                        out.case(&op, &ans, Some(&op), &["lookalike-needles", if ans == "true" { "ans.true" } else { "ans.other" }]);
                    }
                }
            }
        }
    }
    out.notes.push(format!(
        "contains sweep (avx={}): needle lengths 0..={max_len}, <= {} needles per length, every anchor 1..len-1, haystack lengths <= {MAX_HAY}",
        avx as u8,
        per_len + 1
    ));
}

pub fn run(cfg: Cfg, out: &mut Out) {
    let s = scheme();
    let avx = probe_avx(&s);
    let is_child = std::env::var(CHILD_ENV).is_ok();
    out.tag(if avx { "process.avx2" } else { "process.scalar" });
    sweep(cfg, out, &s, avx);
    if is_child {
        return;
    }
    if !avx {
        out.notes.push("AVX2 path not available in this process (CPU feature missing or WIREFILTER_USE_AVX2 disables it): SIMD searchers not covered".to_string());
        out.tag("coverage.avx2_unavailable");
        return;
    }
    // the same sweep with the latch off: needs a fresh process
    let dir = std::env::temp_dir().join(format!("wfh-contains-{}-{}-{}", std::process::id(), cfg.seed, cfg.shard));
    let _ = std::fs::remove_dir_all(&dir);
    let exe = std::env::current_exe().expect("current_exe");
    let status = std::process::Command::new(exe)
        .arg("contains")
        .arg(if cfg.tier == Tier::Quick { "quick" } else { "thorough" })
        .arg(cfg.seed.to_string())
        .arg(&dir)
        .arg(cfg.shard.to_string())
        .arg(cfg.nshards.to_string())
        .env("WIREFILTER_USE_AVX2", "0")
        .env(CHILD_ENV, "1")
        .status();
    let ok = matches!(status, Ok(st) if st.success());
    if !ok {
        out.impl_failure("contains child", &format!("child process with WIREFILTER_USE_AVX2=0 failed: {status:?}"));
        let _ = std::fs::remove_dir_all(&dir);
        return;
    }
    let ops = std::fs::read_to_string(dir.join("contains.ops")).unwrap_or_default();
    let imp = std::fs::read_to_string(dir.join("contains.impl")).unwrap_or_default();
    let meta: serde_json::Value = std::fs::read_to_string(dir.join("contains.meta.json")).ok().and_then(|t| serde_json::from_str(&t).ok()).unwrap_or_default();
    let mut n = 0u64;
    let mut child_avx_ops = 0u64;
    for (op, ans) in ops.lines().zip(imp.lines()) {
        let w: Vec<&str> = op.split(' ').collect();
        let nontrivial = w.len() == 5 && w[2] != "-" && w[2].len() >= 4 && w[1] != "-" && w[1].len() > w[2].len();
        if w.len() == 5 && w[4] != "0" {
            child_avx_ops += 1;
        }
        out.case(op, ans, if nontrivial { Some(op) } else { None }, &["process.child_scalar"]);
        n += 1;
    }
    if ops.lines().count() != imp.lines().count() || n == 0 {
        out.impl_failure("contains child", "child produced no/unequal ops and answers");
    }
    if child_avx_ops > 0 {
        out.impl_failure("contains child", "WIREFILTER_USE_AVX2=0 did not switch the SIMD path off in a fresh process");
    }
    if let Some(h) = meta.get("hist").and_then(|h| h.as_object()) {
        for (k, v) in h {
            *out.hist.entry(format!("child.{k}")).or_insert(0) += v.as_u64().unwrap_or(0);
        }
    }
    if let Some(f) = meta.get("impl_failures").and_then(|f| f.as_array()) {
        for x in f {
            if let (Some(op), Some(what)) = (x.get(0).and_then(|v| v.as_str()), x.get(1).and_then(|v| v.as_str())) {
                out.impl_failure(op, &format!("child: {what}"));
            }
        }
    }
    if let Some(ns) = meta.get("notes").and_then(|f| f.as_array()) {
        for x in ns {
            if let Some(t) = x.as_str() {
                out.notes.push(format!("child: {t}"));
            }
        }
    }
    let _ = std::fs::remove_dir_all(&dir);
}

fn unhex(s: &str) -> Option<Vec<u8>> {
    if s == "-" {
        return Some(vec![]);
    }
    if s.len() % 2 != 0 {
        return None;
    }
    (0..s.len() / 2).map(|i| u8::from_str_radix(&s[2 * i..2 * i + 2], 16).ok()).collect()
}

/// Re-run one op line on the implementation. An op recorded with avx=0 is re-run in a
/// child process with `WIREFILTER_USE_AVX2=0` when this process has the SIMD path on.
pub fn replay(op: &str) -> Option<String> {
    let w: Vec<&str> = op.split(' ').collect();
    let ["contains", hay, needle, anchor, avx] = w.as_slice() else {
        return None;
    };
    let s = scheme();
    let have_avx = probe_avx(&s);
    if *avx == "0" && have_avx {
        let exe = std::env::current_exe().ok()?;
        let o = std::process::Command::new(exe).arg("replay").arg("contains").args(&w).env("WIREFILTER_USE_AVX2", "0").output().ok()?;
        return Some(String::from_utf8_lossy(&o.stdout).trim().lines().last().unwrap_or("").to_string());
    }
    if *avx == "1" && !have_avx {
        return Some("no-avx2-in-this-process".to_string());
    }
    let hay = unhex(hay)?;
    let p = unhex(needle)?;
    let k = if *anchor == "-" { None } else { Some(anchor.parse::<usize>().ok()?) };
    match compile(&s, &p, k, false) {
        Ok((f, _)) => Some(exec(&s, &f, &hay)),
        Err(e) => Some(e),
    }
}
