//! C14 — execution contexts through serde: `Serialize for ExecutionContext`,
//! `DeserializeSeed for &mut ExecutionContext` via the four serde_json entry points.
//!
//! op lines (twin: lean/WfModel/Drv/CtxSerde.lean):
//!   F = `.` | `<hexname>:<ty>:<o|m>:<val|->`,…      fields in scheme order with current value
//!   L = `.` | `<ty>:<state>`,…                      lists in scheme order with matcher state
//!   state = `-` | `<hexname>=<v;v;…>/…`
//!
//!   every op: `ctxser <rt|de> entry=<str|slice|reader|value> lists=<n> class=<c> fields=<n> len=<n>
//!   case=<n> shard=<n> F L [<hexdoc>]`; `lists … shard` are labels (ignored by both sides; they keep
//!   the first 80 characters of an op line stable per input class so that bin/check groups
//!   disagreements by class, and let known findings be matched precisely).
//!
//!   ctxser rt entry=<str|slice|reader|value> lists=<n> … F L
//!       impl: serialize the context built from F/L, deserialize the text into a fresh context
//!       of the same scheme through the entry point, compare.
//!       answer `rt verdict=<same|err|diff|filters-differ|panic> text=<hex json>` | `panic` | `err`
//!       (verdict first: bin/check groups disagreements by the first 20 characters of the answers)
//!   ctxser de entry=<…> lists=<n> … F L <hexdoc>
//!       impl: deserialize the document into the context given by F/L.
//!       answer `err` | `ok <val|-,…> <state,…>` | `panic` | `illtyped` (a stored value whose
//!       type is not its field's type — checked after success *and* after failure)
use crate::Cfg;
use crate::codec::{parse_ty, parse_val, ty_str, unhex, val_str};
use crate::out::{Out, hex};
use crate::rng::Rng;
use serde::de::DeserializeSeed;
use serde::{Deserialize, Serialize};
use std::cell::RefCell;
use std::collections::BTreeMap;
use std::net::{IpAddr, Ipv4Addr, Ipv6Addr};
use std::panic::{AssertUnwindSafe, catch_unwind};
use wirefilter::{
    Array, ExecutionContext, GetType, LhsValue, ListDefinition, ListMatcher, Map, Scheme,
    SchemeBuilder, Type, TypeMismatchError,
};

// ------------------------------------------------------------------ list matcher with state

#[derive(Clone, Debug, Default, PartialEq, Serialize, Deserialize)]
#[serde(transparent)]
struct IntSet(BTreeMap<String, Vec<i64>>);

#[derive(Clone, Debug, Default, PartialEq, Serialize, Deserialize)]
#[serde(transparent)]
struct IpSet(BTreeMap<String, Vec<IpAddr>>);

impl ListMatcher for IntSet {
    fn match_value(&self, name: &str, v: &LhsValue<'_>) -> bool {
        match v {
            LhsValue::Int(i) => self.0.get(name).is_some_and(|l| l.contains(i)),
            _ => false,
        }
    }
    fn clear(&mut self) {
        self.0.clear()
    }
}

impl ListMatcher for IpSet {
    fn match_value(&self, name: &str, v: &LhsValue<'_>) -> bool {
        match v {
            LhsValue::Ip(i) => self.0.get(name).is_some_and(|l| l.contains(i)),
            _ => false,
        }
    }
    fn clear(&mut self) {
        self.0.clear()
    }
}

thread_local! {
    // state handed to `new_matcher` (the engine offers no public downcast to fill a matcher)
    static PENDING_INT: RefCell<BTreeMap<String, Vec<i64>>> = RefCell::new(BTreeMap::new());
    static PENDING_IP: RefCell<BTreeMap<String, Vec<IpAddr>>> = RefCell::new(BTreeMap::new());
}

#[derive(Debug)]
struct SetList {
    ty: Type,
}

impl ListDefinition for SetList {
    fn deserialize_matcher<'de>(
        &self,
        ty: Type,
        deserializer: &mut dyn erased_serde::Deserializer<'de>,
    ) -> Result<Box<dyn ListMatcher>, erased_serde::Error> {
        match ty {
            Type::Int => Ok(Box::new(erased_serde::deserialize::<IntSet>(deserializer)?)),
            _ => Ok(Box::new(erased_serde::deserialize::<IpSet>(deserializer)?)),
        }
    }
    fn new_matcher(&self) -> Box<dyn ListMatcher> {
        match self.ty {
            Type::Int => Box::new(IntSet(PENDING_INT.with(|p| p.borrow().clone()))),
            _ => Box::new(IpSet(PENDING_IP.with(|p| p.borrow().clone()))),
        }
    }
}

#[derive(Clone, Debug, PartialEq)]
enum State {
    Int(BTreeMap<String, Vec<i64>>),
    Ip(BTreeMap<String, Vec<IpAddr>>),
}

impl State {
    fn empty(ty: Type) -> State {
        if ty == Type::Int { State::Int(BTreeMap::new()) } else { State::Ip(BTreeMap::new()) }
    }
    fn tok(&self) -> String {
        fn go<T>(m: &BTreeMap<String, Vec<T>>, f: impl Fn(&T) -> String) -> String {
            if m.is_empty() {
                return "-".into();
            }
            m.iter()
                .map(|(k, vs)| {
                    format!("{}={}", hex(k.as_bytes()), vs.iter().map(&f).collect::<Vec<_>>().join(";"))
                })
                .collect::<Vec<_>>()
                .join("/")
        }
        match self {
            State::Int(m) => go(m, |i| format!("i{i}")),
            State::Ip(m) => go(m, |a| val_str(&LhsValue::Ip(*a))),
        }
    }
    fn parse(ty: Type, s: &str) -> Option<State> {
        let mut ints = BTreeMap::new();
        let mut ips = BTreeMap::new();
        if s != "-" {
            for e in s.split('/') {
                let (n, items) = e.split_once('=')?;
                let name = String::from_utf8(unhex(n)?).ok()?;
                let mut vi = Vec::new();
                let mut vp = Vec::new();
                if !items.is_empty() {
                    for it in items.split(';') {
                        match parse_val(it)? {
                            LhsValue::Int(i) => vi.push(i),
                            LhsValue::Ip(a) => vp.push(a),
                            _ => return None,
                        }
                    }
                }
                if ty == Type::Int {
                    if !vp.is_empty() {
                        return None;
                    }
                    ints.insert(name, vi);
                } else {
                    if !vi.is_empty() {
                        return None;
                    }
                    ips.insert(name, vp);
                }
            }
        }
        Some(if ty == Type::Int { State::Int(ints) } else { State::Ip(ips) })
    }
}

// ------------------------------------------------------------------ cases

#[derive(Clone, Debug)]
struct FieldSpec {
    name: String,
    ty: Type,
    optional: bool,
    val: Option<LhsValue<'static>>,
}

#[derive(Clone, Debug)]
struct ListSpec {
    ty: Type,
    state: State,
}

#[derive(Clone, Debug)]
struct Case {
    fields: Vec<FieldSpec>,
    lists: Vec<ListSpec>,
}

impl Case {
    fn f_tok(&self) -> String {
        if self.fields.is_empty() {
            return ".".into();
        }
        self.fields
            .iter()
            .map(|f| {
                format!(
                    "{}:{}:{}:{}",
                    hex(f.name.as_bytes()),
                    ty_str(&f.ty),
                    if f.optional { "o" } else { "m" },
                    f.val.as_ref().map(val_str).unwrap_or_else(|| "-".into())
                )
            })
            .collect::<Vec<_>>()
            .join(",")
    }
    fn l_tok(&self) -> String {
        if self.lists.is_empty() {
            return ".".into();
        }
        self.lists
            .iter()
            .map(|l| format!("{}:{}", ty_str(&l.ty), l.state.tok()))
            .collect::<Vec<_>>()
            .join(",")
    }
    fn parse(f: &str, l: &str) -> Option<Case> {
        let mut fields = Vec::new();
        if f != "." {
            for it in f.split(',') {
                let mut p = it.splitn(4, ':');
                let name = String::from_utf8(unhex(p.next()?)?).ok()?;
                let ty = parse_ty(p.next()?)?;
                let optional = p.next()? == "o";
                let v = p.next()?;
                let val = if v == "-" { None } else { Some(parse_val(v)?) };
                fields.push(FieldSpec { name, ty, optional, val });
            }
        }
        let mut lists = Vec::new();
        if l != "." {
            for it in l.split(',') {
                let (t, st) = it.split_once(':')?;
                let ty = parse_ty(t)?;
                if ty != Type::Int && ty != Type::Ip {
                    return None;
                }
                lists.push(ListSpec { ty, state: State::parse(ty, st)? });
            }
        }
        Some(Case { fields, lists })
    }
    fn scheme(&self) -> Option<Scheme> {
        let mut b = SchemeBuilder::new();
        for f in &self.fields {
            if f.optional {
                b.add_optional_field(&f.name, f.ty).ok()?;
            } else {
                b.add_field(&f.name, f.ty).ok()?;
            }
        }
        for l in &self.lists {
            b.add_list(l.ty, SetList { ty: l.ty }).ok()?;
        }
        Some(b.build())
    }
    /// context holding this case's values and matcher states (`fresh`: neither)
    fn ctx<'s>(&self, s: &'s Scheme, fresh: bool) -> Option<ExecutionContext<'static>> {
        PENDING_INT.with(|p| p.borrow_mut().clear());
        PENDING_IP.with(|p| p.borrow_mut().clear());
        if !fresh {
            for l in &self.lists {
                match &l.state {
                    State::Int(m) => PENDING_INT.with(|p| *p.borrow_mut() = m.clone()),
                    State::Ip(m) => PENDING_IP.with(|p| *p.borrow_mut() = m.clone()),
                }
            }
        }
        let mut ctx = ExecutionContext::new(s);
        PENDING_INT.with(|p| p.borrow_mut().clear());
        PENDING_IP.with(|p| p.borrow_mut().clear());
        if !fresh {
            for f in &self.fields {
                if let Some(v) = &f.val {
                    ctx.set_field_value(s.get_field(&f.name).ok()?, v.clone()).ok()?;
                }
            }
        }
        Some(ctx)
    }
    fn has_container(&self) -> bool {
        self.fields.iter().any(|f| f.val.is_some() && matches!(f.ty, Type::Array(_) | Type::Map(_)))
    }
}

#[derive(Clone, Copy, PartialEq, Debug)]
enum Entry {
    Str,
    Slice,
    Reader,
    Value,
    CApi,
}

impl Entry {
    fn name(self) -> &'static str {
        match self {
            Entry::Str => "str",
            Entry::Slice => "slice",
            Entry::Reader => "reader",
            Entry::Value => "value",
            Entry::CApi => "capi",
        }
    }
    fn parse(s: &str) -> Option<Entry> {
        Some(match s.strip_prefix("entry=")? {
            "str" => Entry::Str,
            "slice" => Entry::Slice,
            "reader" => Entry::Reader,
            "value" => Entry::Value,
            "capi" => Entry::CApi,
            _ => return None,
        })
    }
}

/// the engine's own incantation (`test_serde`, `wirefilter_deserialize_json_to_execution_context`):
/// no `Deserializer::end()`.
fn deser<'a>(ctx: &mut ExecutionContext<'a>, entry: Entry, doc: &'a [u8]) -> Result<(), ()> {
    match entry {
        Entry::Str => {
            let s = std::str::from_utf8(doc).map_err(|_| ())?;
            let mut d = serde_json::Deserializer::from_str(s);
            ctx.deserialize(&mut d).map_err(|_| ())
        }
        Entry::Slice => {
            let mut d = serde_json::Deserializer::from_slice(doc);
            ctx.deserialize(&mut d).map_err(|_| ())
        }
        Entry::Reader => {
            let mut d = serde_json::Deserializer::from_reader(doc);
            ctx.deserialize(&mut d).map_err(|_| ())
        }
        Entry::Value => {
            let v: serde_json::Value = serde_json::from_slice(doc).map_err(|_| ())?;
            ctx.deserialize(v).map_err(|_| ())
        }
        Entry::CApi => {
            // `wirefilter_deserialize_json_to_execution_context` as a C caller uses it: the
            // document sits in the caller's own buffer, which is overwritten as soon as the
            // call has returned (and then abandoned, so that a context still pointing into it
            // reads the scribble rather than freed memory)
            let sch = ctx.scheme().clone();
            let inner = std::mem::replace(ctx, ExecutionContext::new(&sch));
            let mut c = wirefilter_ffi::ExecutionContext::from(inner);
            let mut buf: Vec<u8> = doc.to_vec();
            let ok = wirefilter_ffi::wirefilter_deserialize_json_to_execution_context(&mut c, buf.as_ptr(), buf.len());
            buf.iter_mut().for_each(|b| *b = b'x');
            std::mem::forget(buf);
            *ctx = c.into();
            if ok { Ok(()) } else { Err(()) }
        }
    }
}

fn deep_typed(v: &LhsValue<'_>, ty: Type) -> bool {
    if v.get_type() != ty {
        return false;
    }
    match v {
        LhsValue::Array(a) => {
            let t = a.value_type();
            Type::Array(t.into()) == ty && a.iter().all(|e| deep_typed(e, t))
        }
        LhsValue::Map(m) => {
            let t = m.value_type();
            Type::Map(t.into()) == ty && m.iter().all(|(_, e)| deep_typed(e, t))
        }
        _ => true,
    }
}

fn ctx_typed(ctx: &ExecutionContext<'_>, s: &Scheme) -> bool {
    s.fields().all(|f| match ctx.get_field_value(f) {
        Some(v) => deep_typed(v, f.get_type()),
        None => true,
    })
}

fn read_state(ctx: &ExecutionContext<'_>, s: &Scheme) -> Option<Vec<State>> {
    let mut out = Vec::new();
    for l in s.lists() {
        let m: &dyn ListMatcher = ctx.get_list_matcher(l);
        let e: &dyn erased_serde::Serialize = m;
        let txt = serde_json::to_string(e).ok()?;
        out.push(if l.get_type() == Type::Int {
            State::Int(serde_json::from_str::<IntSet>(&txt).ok()?.0)
        } else {
            State::Ip(serde_json::from_str::<IpSet>(&txt).ok()?.0)
        });
    }
    Some(out)
}

fn ctx_tok(ctx: &ExecutionContext<'_>, s: &Scheme) -> String {
    let vals: Vec<String> = s
        .fields()
        .map(|f| ctx.get_field_value(f).map(val_str).unwrap_or_else(|| "-".into()))
        .collect();
    let states: Vec<String> = match read_state(ctx, s) {
        Some(v) => v.iter().map(|st| st.tok()).collect(),
        None => vec!["unreadable-state".into()],
    };
    format!(
        "{} {}",
        if vals.is_empty() { ".".into() } else { vals.join(",") },
        if states.is_empty() { ".".into() } else { states.join(",") }
    )
}

// ------------------------------------------------------------------ filters on both contexts

fn ident_ok(name: &str) -> bool {
    !name.is_empty()
        && name.chars().all(|c| c.is_ascii_alphanumeric() || c == '_' || c == '.')
        && name.chars().next().is_some_and(|c| c.is_ascii_lowercase())
        && !name.ends_with('.')
}

fn bytes_lit(b: &[u8]) -> String {
    let mut t = String::from("\"");
    for c in b {
        t.push_str(&format!("\\x{c:02x}"));
    }
    t.push('"');
    t
}

fn first_leaf<'a>(v: &'a LhsValue<'a>) -> Option<&'a LhsValue<'a>> {
    match v {
        LhsValue::Array(a) => a.iter().find_map(first_leaf),
        LhsValue::Map(m) => m.iter().find_map(|(_, e)| first_leaf(e)),
        x => Some(x),
    }
}

/// filter / value-expression texts that look into the given field
fn filters_for(case: &Case, f: &FieldSpec, rng: &mut Rng) -> Vec<(bool, String)> {
    let mut out = Vec::new();
    if !ident_ok(&f.name) || (f.val.is_none() && !f.optional) {
        return out;
    }
    // path into the container
    let mut path = String::new();
    let mut star = false;
    let mut ty = f.ty;
    let mut cur: Option<&LhsValue<'_>> = f.val.as_ref();
    loop {
        match ty {
            Type::Array(t) => {
                if rng.chance(1, 2) {
                    path.push_str("[*]");
                    star = true;
                } else {
                    path.push_str(&format!("[{}]", rng.below(2)));
                }
                cur = match cur {
                    Some(LhsValue::Array(a)) => a.get(0),
                    _ => None,
                };
                ty = t.into();
            }
            Type::Map(t) => {
                let key = match cur {
                    Some(LhsValue::Map(m)) => m.iter().next().map(|(k, _)| k.to_vec()),
                    _ => None,
                };
                if rng.chance(1, 3) || key.is_none() {
                    path.push_str("[*]");
                    star = true;
                } else {
                    path.push_str(&format!("[{}]", bytes_lit(&key.clone().unwrap())));
                }
                cur = match (cur, key) {
                    (Some(LhsValue::Map(m)), Some(k)) => m.get(&k),
                    _ => None,
                };
                ty = t.into();
            }
            _ => break,
        }
    }
    let leaf = f.val.as_ref().and_then(|v| first_leaf(v));
    let list_of = |t: Type| case.lists.iter().find(|l| l.ty == t);
    let cmp = match ty {
        Type::Bool => String::new(),
        Type::Int => match (list_of(Type::Int), rng.chance(1, 2)) {
            (Some(ListSpec { state: State::Int(m), .. }), true) if !m.is_empty() => {
                format!(" in ${}", m.keys().next().unwrap())
            }
            _ => match leaf {
                Some(LhsValue::Int(i)) => format!(" == {i}"),
                _ => " >= 0".into(),
            },
        },
        Type::Ip => match (list_of(Type::Ip), rng.chance(1, 2)) {
            (Some(ListSpec { state: State::Ip(m), .. }), true) if !m.is_empty() => {
                format!(" in ${}", m.keys().next().unwrap())
            }
            _ => match leaf {
                Some(LhsValue::Ip(a)) => format!(" == {a}"),
                _ => " == 10.0.0.1".into(),
            },
        },
        _ => match leaf {
            Some(LhsValue::Bytes(b)) => format!(" == {}", bytes_lit(b)),
            _ => " == \"\"".into(),
        },
    };
    if star {
        out.push((true, format!("any({}{}{})", f.name, path, cmp)));
    } else {
        out.push((true, format!("{}{}{}", f.name, path, cmp)));
        out.push((false, format!("{}{}", f.name, path)));
    }
    out.push((false, f.name.clone()));
    out
}

/// evaluates the texts on a context; unparsable texts are dropped consistently (same scheme)
fn eval_all(s: &Scheme, ctx: &ExecutionContext<'_>, texts: &[(bool, String)]) -> Vec<String> {
    texts
        .iter()
        .map(|(is_filter, t)| {
            let r = catch_unwind(AssertUnwindSafe(|| {
                if *is_filter {
                    match s.parse(t) {
                        Ok(ast) => format!("{:?}", ast.compile().execute(ctx)),
                        Err(_) => "unparsed".into(),
                    }
                } else {
                    match s.parse_value(t) {
                        Ok(ast) => match ast.compile().execute(ctx) {
                            Ok(Ok(v)) => val_str(&v),
                            Ok(Err(t)) => format!("absent {}", ty_str(&t)),
                            Err(_) => "scheme-mismatch".into(),
                        },
                        Err(_) => "unparsed".into(),
                    }
                }
            }));
            r.unwrap_or_else(|_| "panic".into())
        })
        .collect()
}

// ------------------------------------------------------------------ the two ops

struct RtOut {
    answer: String,
    json: Option<String>,
    filters_run: usize,
}

fn run_rt(case: &Case, entry: Entry, texts: &[(bool, String)]) -> Option<RtOut> {
    let s = case.scheme()?;
    let ctx = case.ctx(&s, false)?;
    let json = match catch_unwind(AssertUnwindSafe(|| serde_json::to_string(&ctx))) {
        Ok(Ok(j)) => j,
        Ok(Err(_)) => return Some(RtOut { answer: "err".into(), json: None, filters_run: 0 }),
        Err(_) => return Some(RtOut { answer: "panic".into(), json: None, filters_run: 0 }),
    };
    let mut ctx2 = case.ctx(&s, true)?;
    let r = catch_unwind(AssertUnwindSafe(|| deser(&mut ctx2, entry, json.as_bytes())));
    let mut filters_run = 0;
    let verdict = match r {
        Err(_) => "panic",
        Ok(Err(())) => "err",
        Ok(Ok(())) => {
            if ctx != ctx2 {
                "diff"
            } else {
                let a = eval_all(&s, &ctx, texts);
                let b = eval_all(&s, &ctx2, texts);
                filters_run = a.iter().filter(|x| *x != "unparsed").count();
                if a == b { "same" } else { "filters-differ" }
            }
        }
    };
    Some(RtOut {
        answer: format!("rt verdict={} text={}", verdict, hex(json.as_bytes())),
        json: Some(json),
        filters_run,
    })
}

fn run_de(case: &Case, entry: Entry, doc: &[u8]) -> Option<String> {
    let s = case.scheme()?;
    let mut ctx = case.ctx(&s, false)?;
    let r = catch_unwind(AssertUnwindSafe(|| deser(&mut ctx, entry, doc)));
    Some(match r {
        Err(_) => "panic".into(),
        Ok(res) => {
            if !ctx_typed(&ctx, &s) {
                "illtyped".into()
            } else {
                match res {
                    Ok(()) => format!("ok {}", ctx_tok(&ctx, &s)),
                    Err(()) => "err".into(),
                }
            }
        }
    })
}

pub fn replay(op: &str) -> Option<String> {
    let t: Vec<&str> = op.split(' ').collect();
    match t.as_slice() {
        ["ctxser", "rt", e, _, _, _, _, _, _, f, l] => {
            let case = Case::parse(f, l)?;
            Some(run_rt(&case, Entry::parse(e)?, &[])?.answer)
        }
        ["ctxser", "de", e, _, _, _, _, _, _, f, l, doc] => {
            let case = Case::parse(f, l)?;
            run_de(&case, Entry::parse(e)?, &unhex(doc)?)
        }
        _ => None,
    }
}

// ------------------------------------------------------------------ generators

const SHAPES: [&str; 15] =
    ["", "A", "M", "AA", "AM", "MA", "MM", "AAA", "AAM", "AMA", "AMM", "MAA", "MAM", "MMA", "MMM"];
const PRIMS: [&str; 4] = ["B", "I", "P", "Y"];
const ODD_NAMES: [&str; 8] = [
    "http.host",
    "http.request.headers.names",
    "we\"ird",
    "back\\slash",
    "ctl\u{1}\n\t",
    "caf\u{e9}.\u{1f600}",
    "",
    "type",
];

fn gen_int(rng: &mut Rng) -> i64 {
    match rng.below(8) {
        0 => i64::MIN,
        1 => i64::MAX,
        2 => 0,
        3 => -1,
        4 => rng.range(-300, 300),
        5 => rng.range(i64::MIN, i64::MIN + 2),
        6 => rng.range(i64::MAX - 2, i64::MAX),
        _ => rng.next() as i64,
    }
}

fn gen_ip(rng: &mut Rng) -> IpAddr {
    match rng.below(10) {
        0 => IpAddr::V4(Ipv4Addr::from(rng.next() as u32)),
        1 => IpAddr::V4(Ipv4Addr::from(*rng.pick(&[0u32, u32::MAX, 0x7f00_0001, 0x0a00_0001, 0x0100_0000]))),
        2 => IpAddr::V6(Ipv6Addr::from(((rng.next() as u128) << 64) | rng.next() as u128)),
        3 => IpAddr::V6(Ipv6Addr::from(0xffff_0000_0000u128 | (rng.next() as u32) as u128)), // v4-mapped
        4 => IpAddr::V6(Ipv6Addr::from((rng.next() as u32) as u128)), // v4-compatible / :: / ::1
        5 => IpAddr::V6(Ipv6Addr::from(*rng.pick(&[0u128, 1, u128::MAX, 1 << 127, 0xffff_0000_0000, 0xfffe_0000_0000]))),
        _ => {
            // segments with zero runs (exercises `::` placement)
            let mut a: u128 = 0;
            for _ in 0..8 {
                let seg: u128 = match rng.below(4) {
                    0 | 1 => 0,
                    2 => rng.below(16) as u128,
                    _ => rng.below(65536) as u128,
                };
                a = (a << 16) | seg;
            }
            IpAddr::V6(Ipv6Addr::from(a))
        }
    }
}

fn gen_bytes(rng: &mut Rng, force_bad: bool) -> Vec<u8> {
    const BAD: [&[u8]; 12] = [
        b"\xff",
        b"\xc0\x80",
        b"\xc1\xbf",
        b"\xed\xa0\x80",
        b"\xed\xbf\xbf",
        b"\xf4\x90\x80\x80",
        b"\xf5\x80\x80\x80",
        b"\xe0\x80\x80",
        b"\xf0\x80\x80\x80",
        b"\x80",
        b"\xe2\x82",
        b"a\xf0\x9f\x98",
    ];
    const GOOD: [&[u8]; 14] = [
        b"",
        b"a",
        b"leet",
        b"tabs",
        b"\"q\"",
        b"back\\slash",
        b"\x00\x01\x1f",
        b"\n\r\t\x08\x0c",
        b"\x7f",
        "\u{e9}".as_bytes(),
        "\u{7ff}\u{800}".as_bytes(),
        "\u{d7ff}\u{e000}\u{ffff}".as_bytes(),
        "\u{10000}\u{10ffff}".as_bytes(),
        b"/slash",
    ];
    // whole values whose text looks like a value of another type (address, number, JSON)
    const LOOKALIKE: [&[u8]; 10] = [
        b"10.0.0.1", b"::1", b"255.255.255.255", b"2001:db8::1", b"1", b"-7", b"true", b"null", b"[1]", b"{}",
    ];
    if !force_bad && rng.chance(1, 8) {
        let g: &[u8] = *rng.pick(&LOOKALIKE);
        return g.to_vec();
    }
    let mut out = Vec::new();
    let n = if force_bad { 1 + rng.below(2) } else { rng.below(3) };
    for _ in 0..n {
        if rng.chance(1, 2) {
            { let g: &[u8] = *rng.pick(&GOOD); out.extend_from_slice(g); }
        } else {
            out.push(rng.below(128) as u8);
        }
    }
    if force_bad {
        let at = rng.below(out.len() as u64 + 1) as usize;
        let bad: &[u8] = *rng.pick(&BAD);
        out.splice(at..at, bad.iter().cloned());
    } else if n == 0 && rng.chance(1, 2) {
        { let g: &[u8] = *rng.pick(&GOOD); out.extend_from_slice(g); }
    }
    out
}

struct GenStats {
    nonutf8_bytes: u64,
    nonutf8_keys: u64,
    empty_containers: u64,
}

fn gen_val(rng: &mut Rng, ty: Type, st: &mut GenStats) -> LhsValue<'static> {
    match ty {
        Type::Bool => LhsValue::Bool(rng.chance(1, 2)),
        Type::Int => LhsValue::Int(gen_int(rng)),
        Type::Ip => LhsValue::Ip(gen_ip(rng)),
        Type::Bytes => {
            let bad = rng.chance(1, 4);
            if bad {
                st.nonutf8_bytes += 1;
            }
            LhsValue::Bytes(gen_bytes(rng, bad).into())
        }
        Type::Array(t) => {
            let n = if rng.chance(1, 5) { 0 } else { rng.below(4) };
            if n == 0 {
                st.empty_containers += 1;
            }
            let items: Vec<LhsValue<'static>> = (0..n).map(|_| gen_val(rng, t.into(), st)).collect();
            LhsValue::Array(Array::try_from_vec(t, items).unwrap())
        }
        Type::Map(t) => {
            let n = if rng.chance(1, 5) { 0 } else { rng.below(4) };
            if n == 0 {
                st.empty_containers += 1;
            }
            let force_bad = n > 0 && rng.chance(1, 3);
            let mut entries: Vec<Result<(Box<[u8]>, LhsValue<'static>), TypeMismatchError>> = Vec::new();
            for i in 0..n {
                let bad = force_bad && (i == 0 || rng.chance(1, 2));
                let k = gen_bytes(rng, bad);
                entries.push(Ok((k.into_boxed_slice(), gen_val(rng, t.into(), st))));
            }
            if force_bad {
                st.nonutf8_keys += 1;
            }
            LhsValue::Map(Map::try_from_iter(t, entries).unwrap())
        }
    }
}

fn gen_state(rng: &mut Rng, ty: Type) -> State {
    let names = ["l1", "deny.list", "x_2", "caf\u{e9} \"q\""];
    let n = rng.below(4);
    if ty == Type::Int {
        let mut m = BTreeMap::new();
        for _ in 0..n {
            let k = rng.below(4);
            m.insert(rng.pick(&names).to_string(), (0..k).map(|_| gen_int(rng)).collect());
        }
        State::Int(m)
    } else {
        let mut m = BTreeMap::new();
        for _ in 0..n {
            let k = rng.below(4);
            m.insert(rng.pick(&names).to_string(), (0..k).map(|_| gen_ip(rng)).collect());
        }
        State::Ip(m)
    }
}

fn gen_case(rng: &mut Rng, st: &mut GenStats) -> Case {
    let nf = if rng.chance(1, 20) { 0 } else { 1 + rng.below(8) };
    let mut fields: Vec<FieldSpec> = Vec::new();
    for _ in 0..nf {
        let shape = if rng.chance(1, 3) { SHAPES[rng.below(3) as usize] } else { *rng.pick(&SHAPES) };
        let prim = *rng.pick(&PRIMS);
        let tcode = format!("{shape}{prim}");
        let ty = parse_ty(&tcode).unwrap();
        let optional = rng.chance(1, 3);
        let name = if rng.chance(1, 8) {
            rng.pick(&ODD_NAMES).to_string()
        } else {
            format!("{}_{}", if optional { "o" } else { "f" }, tcode.to_lowercase())
        };
        if fields.iter().any(|f| f.name == name) {
            continue;
        }
        let set = if optional { rng.chance(1, 2) } else { rng.chance(9, 10) };
        let val = if set { Some(gen_val(rng, ty, st)) } else { None };
        fields.push(FieldSpec { name, ty, optional, val });
    }
    let lists = match rng.below(6) {
        0 | 1 => vec![],
        2 => vec![Type::Int],
        3 => vec![Type::Ip],
        4 => vec![Type::Int, Type::Ip],
        _ => vec![Type::Ip, Type::Int],
    }
    .into_iter()
    .map(|ty| ListSpec { ty, state: gen_state(rng, ty) })
    .collect();
    Case { fields, lists }
}

// ------------------------------------------------------------------ ordered JSON tree for mutation

#[derive(Clone, Debug, PartialEq)]
enum Jv {
    Null,
    Bool(bool),
    Int(i128),
    Str(String),
    Arr(Vec<Jv>),
    Obj(Vec<(String, Jv)>),
    Raw(String),
}

struct JParser<'a> {
    s: &'a [u8],
    i: usize,
}

impl JParser<'_> {
    fn peek(&self) -> Option<u8> {
        self.s.get(self.i).copied()
    }
    fn string(&mut self) -> Option<String> {
        // at opening quote; reuse serde_json for the unescaping of one string token
        let start = self.i;
        self.i += 1;
        loop {
            match self.peek()? {
                b'\\' => self.i += 2,
                b'"' => {
                    self.i += 1;
                    break;
                }
                _ => self.i += 1,
            }
        }
        serde_json::from_slice::<String>(&self.s[start..self.i]).ok()
    }
    fn value(&mut self) -> Option<Jv> {
        match self.peek()? {
            b'n' => {
                self.i += 4;
                Some(Jv::Null)
            }
            b't' => {
                self.i += 4;
                Some(Jv::Bool(true))
            }
            b'f' => {
                self.i += 5;
                Some(Jv::Bool(false))
            }
            b'"' => self.string().map(Jv::Str),
            b'[' => {
                self.i += 1;
                let mut xs = Vec::new();
                if self.peek()? == b']' {
                    self.i += 1;
                    return Some(Jv::Arr(xs));
                }
                loop {
                    xs.push(self.value()?);
                    match self.peek()? {
                        b',' => self.i += 1,
                        b']' => {
                            self.i += 1;
                            return Some(Jv::Arr(xs));
                        }
                        _ => return None,
                    }
                }
            }
            b'{' => {
                self.i += 1;
                let mut xs = Vec::new();
                if self.peek()? == b'}' {
                    self.i += 1;
                    return Some(Jv::Obj(xs));
                }
                loop {
                    let k = self.string()?;
                    if self.peek()? != b':' {
                        return None;
                    }
                    self.i += 1;
                    xs.push((k, self.value()?));
                    match self.peek()? {
                        b',' => self.i += 1,
                        b'}' => {
                            self.i += 1;
                            return Some(Jv::Obj(xs));
                        }
                        _ => return None,
                    }
                }
            }
            _ => {
                let start = self.i;
                while self.peek().is_some_and(|c| c == b'-' || c.is_ascii_digit()) {
                    self.i += 1;
                }
                std::str::from_utf8(&self.s[start..self.i]).ok()?.parse::<i128>().ok().map(Jv::Int)
            }
        }
    }
}

/// parses serde_json's compact output (no whitespace, integers only)
fn jv_parse(text: &str) -> Option<Jv> {
    let mut p = JParser { s: text.as_bytes(), i: 0 };
    let v = p.value()?;
    if p.i == text.len() { Some(v) } else { None }
}

fn jv_print(j: &Jv, sp: &str, out: &mut String) {
    match j {
        Jv::Null => out.push_str("null"),
        Jv::Bool(b) => out.push_str(if *b { "true" } else { "false" }),
        Jv::Int(i) => out.push_str(&i.to_string()),
        Jv::Str(s) => out.push_str(&serde_json::to_string(s).unwrap()),
        Jv::Raw(r) => out.push_str(r),
        Jv::Arr(xs) => {
            out.push('[');
            out.push_str(sp);
            for (i, x) in xs.iter().enumerate() {
                if i > 0 {
                    out.push(',');
                    out.push_str(sp);
                }
                jv_print(x, sp, out);
            }
            out.push_str(sp);
            out.push(']');
        }
        Jv::Obj(xs) => {
            out.push('{');
            for (i, (k, x)) in xs.iter().enumerate() {
                if i > 0 {
                    out.push(',');
                }
                out.push_str(sp);
                out.push_str(&serde_json::to_string(k).unwrap());
                out.push_str(sp);
                out.push(':');
                out.push_str(sp);
                jv_print(x, sp, out);
            }
            out.push_str(sp);
            out.push('}');
        }
    }
}

fn paths(j: &Jv, cur: &mut Vec<usize>, out: &mut Vec<Vec<usize>>) {
    out.push(cur.clone());
    match j {
        Jv::Arr(xs) => {
            for (i, x) in xs.iter().enumerate() {
                cur.push(i);
                paths(x, cur, out);
                cur.pop();
            }
        }
        Jv::Obj(xs) => {
            for (i, (_, x)) in xs.iter().enumerate() {
                cur.push(i);
                paths(x, cur, out);
                cur.pop();
            }
        }
        _ => {}
    }
}

fn node_mut<'a>(j: &'a mut Jv, path: &[usize]) -> &'a mut Jv {
    match path.split_first() {
        None => j,
        Some((i, rest)) => match j {
            Jv::Arr(xs) => node_mut(&mut xs[*i], rest),
            Jv::Obj(xs) => node_mut(&mut xs[*i].1, rest),
            _ => unreachable!(),
        },
    }
}

fn type_tag(layers: usize, rng: &mut Rng) -> Jv {
    let mut t = Jv::Str(rng.pick(&["Int", "Ip", "Bytes", "Bool"]).to_string());
    for _ in 0..layers {
        t = Jv::Obj(vec![(if rng.chance(1, 2) { "Array" } else { "Map" }.to_string(), t)]);
    }
    t
}

fn junk(rng: &mut Rng) -> Jv {
    match rng.below(22) {
        0 => Jv::Null,
        1 => Jv::Bool(true),
        2 => Jv::Bool(false),
        3 => Jv::Int(0),
        4 => Jv::Int(-1),
        5 => Jv::Int(255),
        6 => Jv::Int(256),
        7 => Jv::Int(i64::MAX as i128 + 1),
        8 => Jv::Int(i64::MIN as i128 - 1),
        9 => Jv::Int(u64::MAX as i128 + 1),
        10 => Jv::Str(String::new()),
        11 => Jv::Str("1.2.3.4".into()),
        12 => Jv::Str("::1".into()),
        13 => Jv::Str("str\u{e9}".into()),
        14 => Jv::Arr(vec![]),
        15 => Jv::Obj(vec![]),
        16 => Jv::Arr(vec![Jv::Arr(vec![])]),
        17 => Jv::Arr(vec![Jv::Int(104), Jv::Int(105)]),
        18 => Jv::Obj(vec![("k".into(), Jv::Int(1))]),
        19 => Jv::Arr(vec![Jv::Arr(vec![Jv::Str("k".into()), Jv::Int(1)])]),
        20 => Jv::Raw(rng.pick(&["1.5", "1e2", "-0", "01", "+1", "0x10", "1.0", "NaN", "tru"]).to_string()),
        _ => Jv::Arr(vec![Jv::Str("k".into()), Jv::Bool(true), Jv::Null]),
    }
}

const IP_TEXTS: [&str; 30] = [
    "1.2.3.4", "01.2.3.4", "1.2.3", "1.2.3.4.5", "1.2.3.256", "1.2.3.04", "0.0.0.0", "1.2.3.4 ", " 1.2.3.4",
    "::", "::1", "1::", ":::", "1:2:3:4:5:6:7:8", "1:2:3:4:5:6:7:8:9", "1:2:3:4:5:6:7::", "::2:3:4:5:6:7:8",
    "1::8::9", "ABCD::ef01", "12345::", "::ffff:1.2.3.4", "::1.2.3.4", "1:2:3:4:5:6:1.2.3.4", "1.2.3.4::",
    "1:2:3:4:5:6:7:1.2.3.4", "fe80::1%eth0", "[::1]", "::ffff:1.2.3.04", "0:0:0:0:0:0:0:0", "1:2:3:4:5:6:7",
];

fn mutate(doc: &Jv, case: &Case, rng: &mut Rng) -> (Jv, &'static str) {
    let mut j = doc.clone();
    let mut ps = Vec::new();
    paths(&j, &mut Vec::new(), &mut ps);
    let deep: Vec<&Vec<usize>> = ps.iter().filter(|p| p.len() >= 2).collect();
    match rng.below(14) {
        0 => {
            // type swap anywhere
            let p = rng.pick(&ps).clone();
            *node_mut(&mut j, &p) = junk(rng);
            (j, "mut.typeswap")
        }
        1 => {
            // wrong element deep inside
            if deep.is_empty() {
                return (junk(rng), "mut.toplevel");
            }
            let maxd = deep.iter().map(|p| p.len()).max().unwrap();
            let cands: Vec<&&Vec<usize>> = deep.iter().filter(|p| p.len() + 1 >= maxd).collect();
            let p = (**rng.pick(&cands)).clone();
            *node_mut(&mut j, &p) = junk(rng);
            (j, "mut.deep-element")
        }
        2 => {
            // key rename
            let objs: Vec<&Vec<usize>> =
                ps.iter().filter(|p| matches!(node_ref(&j, p), Jv::Obj(xs) if !xs.is_empty())).collect();
            if objs.is_empty() {
                return (junk(rng), "mut.toplevel");
            }
            let p = (*rng.pick(&objs)).clone();
            let other: Vec<String> = case.fields.iter().map(|f| f.name.clone()).collect();
            if let Jv::Obj(xs) = node_mut(&mut j, &p) {
                let i = rng.below(xs.len() as u64) as usize;
                xs[i].0 = match rng.below(9) {
                    0 => "nosuchfield".into(),
                    // long unknown names with multi-byte characters at various byte offsets
                    7 => format!("{}\u{e9}{}", "k".repeat(rng.below(140) as usize), "z".repeat(rng.below(5) as usize)),
                    8 => format!("{}\u{1F600}\u{e9}", "n".repeat(60 + rng.below(10) as usize)),
                    1 => "$lists".into(),
                    2 => "type".into(),
                    3 => "data".into(),
                    4 if !other.is_empty() => rng.pick(&other).clone(),
                    5 => format!("{}x", xs[i].0),
                    _ => "\u{ff}\u{0}".into(),
                };
            }
            (j, "mut.rename")
        }
        3 => {
            // nesting change
            let p = rng.pick(&ps).clone();
            let n = node_mut(&mut j, &p);
            let old = n.clone();
            *n = match (rng.below(4), &old) {
                (0, _) => Jv::Arr(vec![old]),
                (1, _) => Jv::Obj(vec![("k".into(), old)]),
                (_, Jv::Arr(xs)) if !xs.is_empty() => xs[0].clone(),
                (_, Jv::Obj(xs)) if !xs.is_empty() => xs[0].1.clone(),
                _ => Jv::Arr(vec![old.clone(), old]),
            };
            (j, "mut.nesting")
        }
        4 => {
            // switch to the alternative encoding (still valid), possibly shuffled / duplicated
            let p = rng.pick(&ps).clone();
            let n = node_mut(&mut j, &p);
            let old = n.clone();
            *n = match old {
                Jv::Str(s) => Jv::Arr(s.as_bytes().iter().map(|b| Jv::Int(*b as i128)).collect()),
                Jv::Obj(xs) if !p.is_empty() => {
                    let mut pairs: Vec<Jv> = xs
                        .into_iter()
                        .map(|(k, v)| {
                            let kj = if rng.chance(1, 2) {
                                Jv::Str(k)
                            } else {
                                Jv::Arr(k.as_bytes().iter().map(|b| Jv::Int(*b as i128)).collect())
                            };
                            Jv::Arr(vec![kj, v])
                        })
                        .collect();
                    if pairs.len() > 1 && rng.chance(1, 2) {
                        pairs.reverse();
                    }
                    if !pairs.is_empty() && rng.chance(1, 2) {
                        // a duplicate key carrying another entry's value: first/last wins matters
                        let i = rng.below(pairs.len() as u64) as usize;
                        let mut d = pairs[i].clone();
                        let other = pairs[(i + 1) % pairs.len()].clone();
                        if let (Jv::Arr(dk), Jv::Arr(ok)) = (&mut d, &other) {
                            dk[1] = ok[1].clone();
                        }
                        let at = rng.below(pairs.len() as u64 + 1) as usize;
                        pairs.insert(at, d);
                    }
                    Jv::Arr(pairs)
                }
                Jv::Arr(xs) => {
                    // pair array -> object when every key is a string; otherwise reverse
                    let as_obj: Option<Vec<(String, Jv)>> = xs
                        .iter()
                        .map(|x| match x {
                            Jv::Arr(kv) if kv.len() == 2 => match &kv[0] {
                                Jv::Str(k) => Some((k.clone(), kv[1].clone())),
                                _ => None,
                            },
                            _ => None,
                        })
                        .collect();
                    match as_obj {
                        Some(o) if !o.is_empty() => Jv::Obj(o),
                        _ => Jv::Arr(xs.into_iter().rev().collect()),
                    }
                }
                other => other,
            };
            (j, "mut.reencode")
        }
        5 => {
            // duplicate an object entry / array element with another value
            let p = rng.pick(&ps).clone();
            match node_mut(&mut j, &p) {
                Jv::Obj(xs) if !xs.is_empty() => {
                    let i = rng.below(xs.len() as u64) as usize;
                    let mut d = xs[i].clone();
                    if rng.chance(1, 2) {
                        d.1 = junk(rng);
                    } else if xs.len() > 1 {
                        d.1 = xs[(i + 1) % xs.len()].1.clone();
                    }
                    let at = rng.below(xs.len() as u64 + 1) as usize;
                    xs.insert(at, d);
                }
                Jv::Arr(xs) if !xs.is_empty() => {
                    let i = rng.below(xs.len() as u64) as usize;
                    let mut d = xs[i].clone();
                    let other = xs[(i + 1) % xs.len()].clone();
                    // for a pair array: same key, the neighbour's value
                    if let (Jv::Arr(dk), Jv::Arr(ok)) = (&mut d, &other) {
                        if dk.len() == 2 && ok.len() == 2 {
                            dk[1] = ok[1].clone();
                        }
                    }
                    let at = rng.below(xs.len() as u64 + 1) as usize;
                    xs.insert(at, d);
                }
                n => *n = junk(rng),
            }
            (j, "mut.duplicate")
        }
        6 => {
            // integers: neighbours, u8/i64 edges, floats
            let ints: Vec<&Vec<usize>> = ps.iter().filter(|p| matches!(node_ref(&j, p), Jv::Int(_))).collect();
            if ints.is_empty() {
                return (junk(rng), "mut.toplevel");
            }
            let p = (*rng.pick(&ints)).clone();
            let n = node_mut(&mut j, &p);
            if let Jv::Int(i) = *n {
                *n = match rng.below(8) {
                    0 => Jv::Int(i + 1),
                    1 => Jv::Int(i - 1),
                    2 => Jv::Int(256),
                    3 => Jv::Int(-1),
                    4 => Jv::Int(i64::MAX as i128 + 1),
                    5 => Jv::Raw(format!("{i}.0")),
                    6 => Jv::Raw(format!("{i}e0")),
                    _ => Jv::Int(i + 256),
                };
            }
            (j, "mut.int")
        }
        7 => {
            // strings: IP spellings and other texts
            let strs: Vec<&Vec<usize>> = ps.iter().filter(|p| matches!(node_ref(&j, p), Jv::Str(_))).collect();
            if strs.is_empty() {
                return (junk(rng), "mut.toplevel");
            }
            let p = (*rng.pick(&strs)).clone();
            *node_mut(&mut j, &p) = Jv::Str(rng.pick(&IP_TEXTS).to_string());
            (j, "mut.iptext")
        }
        8 | 9 => {
            // the `$lists` section
            let mut entries: Vec<Jv> = match &j {
                Jv::Obj(xs) => xs.iter().find(|(k, _)| k == "$lists").and_then(|(_, v)| match v {
                    Jv::Arr(e) => Some(e.clone()),
                    _ => None,
                }),
                _ => None,
            }
            .unwrap_or_default();
            let data = Jv::Obj(vec![("l1".into(), Jv::Arr(vec![]))]);
            let kind = rng.below(12);
            let mut deep = false;
            match kind {
                0 => {
                    let n = 30 + rng.below(101) as usize;
                    deep = n >= 34;
                    entries.push(Jv::Obj(vec![("type".into(), type_tag(n, rng)), ("data".into(), data)]));
                }
                1 => {
                    let n = 32 + rng.below(4) as usize;
                    deep = n >= 34;
                    entries.insert(0, Jv::Obj(vec![("type".into(), type_tag(n, rng)), ("data".into(), data)]));
                }
                2 => {
                    for e in entries.iter_mut() {
                        if let Jv::Obj(xs) = e {
                            xs.reverse();
                        }
                    }
                }
                3 => {
                    for e in entries.iter_mut() {
                        if let Jv::Obj(xs) = e {
                            xs.push(("extra".into(), Jv::Null));
                        }
                    }
                }
                4 => {
                    for e in entries.iter_mut() {
                        if let Jv::Obj(xs) = e {
                            xs.pop();
                        }
                    }
                }
                5 => {
                    // unit variant in map form
                    for e in entries.iter_mut() {
                        if let Jv::Obj(xs) = e {
                            if let Some((_, Jv::Str(t))) = xs.first().cloned() {
                                xs[0].1 = Jv::Obj(vec![(t, if rng.chance(2, 3) { Jv::Null } else { junk(rng) })]);
                            }
                        }
                    }
                }
                6 => entries.push(Jv::Obj(vec![
                    ("type".into(), Jv::Str(rng.pick(&["Bytes", "Bool", "int", "Array", ""]).to_string())),
                    ("data".into(), data),
                ])),
                7 => {
                    let d = entries.clone();
                    entries.extend(d.into_iter().rev());
                }
                8 => {
                    // payload tweaks
                    for e in entries.iter_mut() {
                        if let Jv::Obj(xs) = e {
                            if xs.len() == 2 {
                                xs[1].1 = match rng.below(5) {
                                    0 => Jv::Obj(vec![("b".into(), Jv::Arr(vec![])), ("a".into(), Jv::Arr(vec![])), ("b".into(), Jv::Arr(vec![Jv::Int(7)]))]),
                                    1 => Jv::Obj(vec![("a".into(), Jv::Arr(vec![Jv::Str("::1".into()), Jv::Str("1.1.1.1".into())]))]),
                                    2 => Jv::Obj(vec![("a".into(), Jv::Arr(vec![Jv::Int(1), Jv::Int(i64::MIN as i128)]))]),
                                    3 => Jv::Arr(vec![]),
                                    _ => junk(rng),
                                };
                            }
                        }
                    }
                }
                9 => entries = vec![Jv::Arr(vec![Jv::Str("Int".into()), data])],
                10 => entries.push(junk(rng)),
                _ => entries.clear(),
            }
            let lists = if kind == 11 && rng.chance(1, 2) { junk(rng) } else { Jv::Arr(entries) };
            if let Jv::Obj(xs) = &mut j {
                xs.retain(|(k, _)| k != "$lists");
                let at = if rng.chance(2, 3) { xs.len() } else { rng.below(xs.len() as u64 + 1) as usize };
                xs.insert(at, ("$lists".into(), lists));
            }
            (j, if deep { "mut.lists-deep-tag" } else { "mut.lists" })
        }
        10 => {
            // add an unknown field / drop a member
            if let Jv::Obj(xs) = &mut j {
                if rng.chance(1, 2) || xs.is_empty() {
                    let at = rng.below(xs.len() as u64 + 1) as usize;
                    xs.insert(at, ("unknown.field".into(), junk(rng)));
                } else {
                    let i = rng.below(xs.len() as u64) as usize;
                    xs.remove(i);
                }
            }
            (j, "mut.members")
        }
        11 => (junk(rng), "mut.toplevel"),
        _ => (j, "mut.text"), // text-level mutation only (truncation / whitespace / garbage)
    }
}

fn node_ref<'a>(j: &'a Jv, path: &[usize]) -> &'a Jv {
    match path.split_first() {
        None => j,
        Some((i, rest)) => match j {
            Jv::Arr(xs) => node_ref(&xs[*i], rest),
            Jv::Obj(xs) => node_ref(&xs[*i].1, rest),
            _ => unreachable!(),
        },
    }
}

fn contains_raw(j: &Jv) -> bool {
    match j {
        Jv::Raw(_) => true,
        Jv::Arr(xs) => xs.iter().any(contains_raw),
        Jv::Obj(xs) => xs.iter().any(|(_, v)| contains_raw(v)),
        _ => false,
    }
}

// ------------------------------------------------------------------ run

struct Emit<'a> {
    out: &'a mut Out,
    shard: u64,
    case_no: u64,
}

impl Emit<'_> {
    fn labels(&self, kind: &str, entry: Entry, case: &Case, class: &str, len: usize) -> String {
        format!(
            "ctxser {kind} entry={} lists={} class={class} fields={} len={len} case={} shard={}",
            entry.name(),
            case.lists.len(),
            case.fields.len(),
            self.case_no,
            self.shard
        )
    }

    fn de(&mut self, case: &Case, entry: Entry, doc: &[u8], class: &str, tags: &[&str]) {
        let op = format!(
            "{} {} {} {}",
            self.labels("de", entry, case, class, doc.len()),
            case.f_tok(),
            case.l_tok(),
            hex(doc)
        );
        let ans = run_de(case, entry, doc).unwrap_or_else(|| "harness-bad-case".into());
        let verdict = if ans.starts_with("ok") {
            "de.ok"
        } else if ans == "err" {
            "de.err"
        } else {
            "de.other"
        };
        let nontrivial = doc.iter().filter(|b| **b == b'[' || **b == b'{').count() >= 2;
        let key = hex(doc);
        let mut t: Vec<&str> = tags.to_vec();
        t.push(verdict);
        let en = format!("de.entry.{}", entry.name());
        t.push(&en);
        if class != "unmutated" && verdict == "de.ok" {
            t.push("de.mutated-accepted");
        }
        self.out.case(&op, &ans, if nontrivial { Some(&key) } else { None }, &t);
    }

    /// the four round trips of one context; returns the serialized text
    fn rt(&mut self, case: &Case, texts: &[(bool, String)], value_with_lists: bool) -> (Option<String>, u64) {
        let lists_tag = format!("rt.lists.{}", case.lists.len());
        let mut json: Option<String> = None;
        let mut filters_run = 0;
        for entry in [Entry::Str, Entry::Slice, Entry::Reader, Entry::Value, Entry::CApi] {
            let f6 = entry == Entry::Value && !case.lists.is_empty();
            if f6 && !value_with_lists {
                continue;
            }
            let Some(r) = run_rt(case, entry, texts) else {
                self.out.tag("gen.bad-case");
                continue;
            };
            filters_run += r.filters_run as u64;
            let class = if case.fields.is_empty() && !case.lists.is_empty() {
                "no-fields+lists"
            } else if f6 {
                "value-tree+lists"
            } else {
                "general"
            };
            let len = r.json.as_ref().map(|j| j.len()).unwrap_or(0);
            let op = format!("{} {} {}", self.labels("rt", entry, case, class, len), case.f_tok(), case.l_tok());
            let key = r.json.clone().unwrap_or_default();
            let en = format!("rt.entry.{}", entry.name());
            self.out.case(
                &op,
                &r.answer,
                if case.has_container() { Some(&key) } else { None },
                &[&en, &lists_tag],
            );
            if json.is_none() {
                json = r.json;
            }
        }
        (json, filters_run)
    }
}

fn fresh_of(case: &Case) -> Case {
    Case {
        fields: case.fields.iter().map(|f| FieldSpec { val: None, ..f.clone() }).collect(),
        lists: case.lists.iter().map(|l| ListSpec { ty: l.ty, state: State::empty(l.ty) }).collect(),
    }
}

/// smallest inputs of the classes in which the unchanged tree is known to misbehave, first in
/// every shard, so that each class is reported with its minimal input
fn sentinels(em: &mut Emit<'_>) {
    let int_list = |state: State| ListSpec { ty: Type::Int, state };
    let one = State::Int([("l1".to_string(), vec![1i64])].into_iter().collect());
    // (F3) `$lists` entry whose type tag has 33 / 34 layers, smallest scheme with a list
    let case = Case { fields: vec![], lists: vec![int_list(State::empty(Type::Int))] };
    for n in [33usize, 34] {
        let mut t = "\"Int\"".to_string();
        for _ in 0..n {
            t = format!("{{\"Array\":{t}}}");
        }
        let doc = format!("{{\"$lists\":[{{\"type\":{t},\"data\":{{}}}}]}}");
        for e in [Entry::Str, Entry::Reader] {
            em.de(&case, e, doc.as_bytes(), if n >= 34 { "deep-type-tag" } else { "type-tag-33" }, &["sentinel"]);
        }
    }
    // (F6) value tree, one unset optional field, one list
    let case = Case {
        fields: vec![FieldSpec { name: "a".into(), ty: Type::Bool, optional: true, val: None }],
        lists: vec![int_list(one.clone())],
    };
    em.rt(&case, &[], true);
    // no fields at all, one list with state
    let case = Case { fields: vec![], lists: vec![int_list(one)] };
    em.rt(&case, &[], false);
}

fn deep_sweep(cfg: &Cfg, em: &mut Emit<'_>) {
    // `$lists` entries with 30..=130-layer type tags on the smallest scheme that has a list
    let case = Case { fields: vec![], lists: vec![ListSpec { ty: Type::Int, state: State::empty(Type::Int) }] };
    let ns: [u64; 16] = [30, 31, 32, 33, 34, 35, 36, 48, 64, 65, 100, 123, 124, 125, 128, 130];
    for (k, n) in ns.iter().enumerate() {
        if !cfg.mine(k as u64) {
            continue;
        }
        let (inner, layer) = if k % 2 == 0 { ("Int", "Array") } else { ("Bytes", "Map") };
        let mut t = format!("\"{inner}\"");
        for _ in 0..*n {
            t = format!("{{\"{layer}\":{t}}}");
        }
        let doc = format!("{{\"$lists\":[{{\"type\":{t},\"data\":{{}}}}]}}");
        let class = if *n >= 34 { "deep-type-tag" } else { "type-tag-le33" };
        for e in [Entry::Slice, Entry::Value] {
            em.de(&case, e, doc.as_bytes(), class, &["deep-type-tag-sweep"]);
        }
    }
}

pub fn run(cfg: Cfg, out: &mut Out) {
    // panics are answers here; keep stderr quiet
    std::panic::set_hook(Box::new(|_| {}));
    let mut rng = cfg.rng();
    let n_ctx = cfg.share(if cfg.quick() { 4000 } else { 80000 });
    // inputs of the classes with known defects are capped per shard so that they cannot crowd
    // other disagreements out of bin/check's report (it keeps the first 200)
    let f6_cap = (48 / cfg.nshards).max(2);
    let nofields_cap = (12 / cfg.nshards).max(1);
    let deep_cap = (32 / cfg.nshards).max(2);
    let (mut f6_n, mut f6_skipped, mut nofields_n, mut deep_n) = (0u64, 0u64, 0u64, 0u64);
    let mut st = GenStats { nonutf8_bytes: 0, nonutf8_keys: 0, empty_containers: 0 };
    let mut filters_run = 0u64;
    let mut em = Emit { out, shard: cfg.shard, case_no: 0 };

    sentinels(&mut em);
    deep_sweep(&cfg, &mut em);

    for case_no in 1..=n_ctx {
        em.case_no = case_no;
        let case = gen_case(&mut rng, &mut st);
        if case.scheme().is_none() {
            em.out.tag("gen.rejected-scheme");
            continue;
        }
        if case.fields.is_empty() && !case.lists.is_empty() {
            if nofields_n >= nofields_cap {
                em.out.tag("gen.no-fields+lists.skipped-by-cap");
                continue;
            }
            nofields_n += 1;
        }
        let mut texts: Vec<(bool, String)> = Vec::new();
        for f in &case.fields {
            if texts.len() < 8 {
                texts.extend(filters_for(&case, f, &mut rng));
            }
        }
        let with_value = if case.lists.is_empty() {
            true
        } else if f6_n < f6_cap {
            f6_n += 1;
            true
        } else {
            f6_skipped += 1;
            false
        };
        let (json, fr) = em.rt(&case, &texts, with_value);
        filters_run += fr;
        let Some(json) = json else { continue };
        // the model's own prediction on the serialized text, per entry point, into a fresh context
        let fresh = fresh_of(&case);
        for entry in [Entry::Str, Entry::Slice, Entry::Reader, Entry::Value] {
            if entry == Entry::Slice && !rng.chance(1, 4) {
                continue;
            }
            em.de(&fresh, entry, json.as_bytes(), "unmutated", &["de.unmutated"]);
        }
        // mutated documents
        let Some(tree) = jv_parse(&json) else {
            em.out.tag("gen.unparsed-own-json");
            continue;
        };
        for _ in 0..6 {
            let (mut m, mut tag) = mutate(&tree, &case, &mut rng);
            let mut deep = tag == "mut.lists-deep-tag";
            if rng.chance(1, 6) {
                let (m2, t2) = mutate(&m, &case, &mut rng);
                m = m2;
                deep |= t2 == "mut.lists-deep-tag";
                tag = "mut.double";
            }
            if deep {
                if deep_n >= deep_cap {
                    em.out.tag("mut.lists-deep-tag.skipped-by-cap");
                    continue;
                }
                deep_n += 1;
            }
            let mut text = String::new();
            let sp = if rng.chance(1, 8) { *rng.pick(&[" ", "\n", "\t ", "\r\n"]) } else { "" };
            jv_print(&m, sp, &mut text);
            let mut bytes = text.into_bytes();
            let mut tags: Vec<&str> = vec![tag];
            if tag == "mut.text" || rng.chance(1, 10) {
                match rng.below(4) {
                    0 | 1 => {
                        let at = rng.below(bytes.len() as u64 + 1) as usize;
                        bytes.truncate(at);
                        tags.push("mut.truncated");
                    }
                    2 => {
                        let g: &[u8] = *rng.pick(&[&b" "[..], b"\n{}", b"x", b",", b"}", b" 1"]);
                        bytes.extend_from_slice(g);
                        tags.push("mut.trailing");
                    }
                    _ => {
                        let g: &[u8] = *rng.pick(&[&b" "[..], b"\n\t", b"\xef\xbb\xbf", b"x"]);
                        let mut b2 = g.to_vec();
                        b2.extend_from_slice(&bytes);
                        bytes = b2;
                        tags.push("mut.leading");
                    }
                }
            }
            if contains_raw(&m) {
                tags.push("mut.has-raw-token");
            }
            let utf8 = std::str::from_utf8(&bytes).is_ok();
            let entry = match rng.below(4) {
                0 if utf8 => Entry::Str,
                0 | 1 => Entry::Slice,
                2 => Entry::Reader,
                _ => Entry::Value,
            };
            // mostly into a fresh context, sometimes over the original one
            let populated = rng.chance(1, 4);
            if populated {
                tags.push("de.into-populated");
            }
            let class = if deep { "deep-type-tag" } else { "mutated" };
            em.de(if populated { &case } else { &fresh }, entry, &bytes, class, &tags);
        }
    }
    out.hist.insert("gen.nonutf8-bytes-values".into(), st.nonutf8_bytes);
    out.hist.insert("gen.nonutf8-key-maps".into(), st.nonutf8_keys);
    out.hist.insert("gen.empty-containers".into(), st.empty_containers);
    out.hist.insert("rt.filter-evaluations-compared".into(), filters_run);
    out.hist.insert("rt.value-entry-with-lists.skipped-by-cap".into(), f6_skipped);
    out.notes.push(format!(
        "ctxser: per shard at most {f6_cap} value-tree round trips on schemes with lists (each fails: F6), {nofields_cap} contexts with no fields but lists, {deep_cap} mutated documents with a >=34-layer type tag are emitted, so that known defects cannot crowd other disagreements out of the report"
    ));
}
