//! C19 — the panic catcher, executed for real.
//!
//! op lines (see lean/WfModel/Drv/PanicCatcher.lean for the token and answer alphabet):
//!   pcop  <h0|h1> <tok,tok,...|.>
//!   pcop2 <h1> <toksA|.> <toksB|.> <schedule of 0/1>
//!
//! Process-global state: the panic hook. This process installs ONE sentinel hook (replacing
//! std's printing hook) and then, for `h1` histories, the catcher's hook on top of it, once.
//! All in-process histories therefore start with "hook installed" (`h1`), on a fresh thread
//! (fresh thread-locals). Histories that need a pristine process (`h0`: catcher hook not yet
//! installed) or that may abort (fallback mode Abort) run in a child process of this very
//! binary (`wfh replay pcop-child <op>`), one child per history; the child reports its events
//! line by line so that what happened before an abort is still seen.
use crate::Cfg;
use crate::out::Out;
use std::cell::{Cell, RefCell};
use std::panic::AssertUnwindSafe;
use std::sync::mpsc::{Receiver, Sender, channel};
use std::sync::{Arc, Mutex, Once};
use std::time::Duration;
use wirefilter::{
    PanicCatcherFallbackMode, catch_panic, panic_catcher_disable, panic_catcher_enable,
    panic_catcher_get_backtrace, panic_catcher_set_fallback_mode, panic_catcher_set_hook,
};

#[derive(Clone, Debug, PartialEq)]
pub enum Op {
    Enable,
    Disable,
    SetHook,
    Fallback(bool), // true = Abort
    Query,
    Catch(Vec<Op>, u64),
    Panic(u64),
}

#[derive(Clone, Copy, Debug, PartialEq)]
pub enum Tok {
    E,
    D,
    H,
    Fc,
    Fa,
    Q,
    C,
    R,
    P(u64),
}

pub fn parse_toks(s: &str) -> Option<Vec<Tok>> {
    if s == "." {
        return Some(vec![]);
    }
    s.split(',')
        .map(|t| match t {
            "E" => Some(Tok::E),
            "D" => Some(Tok::D),
            "H" => Some(Tok::H),
            "Fc" => Some(Tok::Fc),
            "Fa" => Some(Tok::Fa),
            "Q" => Some(Tok::Q),
            "C" => Some(Tok::C),
            "R" => Some(Tok::R),
            _ => t.strip_prefix('P')?.parse().ok().map(Tok::P),
        })
        .collect()
}

/// tokens -> op tree: an `R` with nothing open is ignored, open `C`s are closed at the end,
/// the k-th `C` returns the value k.
pub fn tree(toks: &[Tok]) -> Vec<Op> {
    let mut stack: Vec<(u64, Vec<Op>)> = vec![];
    let mut cur: Vec<Op> = vec![];
    let mut next = 0u64;
    for t in toks {
        match t {
            Tok::E => cur.push(Op::Enable),
            Tok::D => cur.push(Op::Disable),
            Tok::H => cur.push(Op::SetHook),
            Tok::Fc => cur.push(Op::Fallback(false)),
            Tok::Fa => cur.push(Op::Fallback(true)),
            Tok::Q => cur.push(Op::Query),
            Tok::P(m) => cur.push(Op::Panic(*m)),
            Tok::C => {
                stack.push((next, std::mem::take(&mut cur)));
                next += 1;
            }
            Tok::R => {
                if let Some((v, mut parent)) = stack.pop() {
                    parent.push(Op::Catch(std::mem::take(&mut cur), v));
                    cur = parent;
                }
            }
        }
    }
    while let Some((v, mut parent)) = stack.pop() {
        parent.push(Op::Catch(std::mem::take(&mut cur), v));
        cur = parent;
    }
    cur
}

/// canonical token rendering of a tree (explicit `R`s)
fn render(ops: &[Op], out: &mut Vec<String>) {
    for op in ops {
        match op {
            Op::Enable => out.push("E".into()),
            Op::Disable => out.push("D".into()),
            Op::SetHook => out.push("H".into()),
            Op::Fallback(false) => out.push("Fc".into()),
            Op::Fallback(true) => out.push("Fa".into()),
            Op::Query => out.push("Q".into()),
            Op::Panic(m) => out.push(format!("P{m}")),
            Op::Catch(body, _) => {
                out.push("C".into());
                render(body, out);
                out.push("R".into());
            }
        }
    }
}

fn steps(ops: &[Op]) -> usize {
    ops.iter()
        .map(|o| match o {
            Op::Catch(b, _) => steps(b) + 2,
            _ => 1,
        })
        .sum()
}

// ---------------------------------------------------------------------------- observation

const MSG_PREFIX: &str = "wfmsg#";

/// what follows the number: messages are arbitrary text — non-ASCII, quotes, backslashes,
/// control characters — and must come back verbatim
fn msg_tail(m: u64) -> &'static str {
    match m % 4 {
        0 => "",
        1 => " caf\u{e9} \u{65e5}\u{672c}",
        2 => " \"q\" \\ 'x'",
        _ => "\ttab\nline {}",
    }
}

fn msg_text(m: u64) -> String {
    format!("{MSG_PREFIX}{m}#{}", msg_tail(m))
}

/// message numbers whose text occurs in `s`
fn ids_in(s: &str) -> Vec<u64> {
    let mut out = vec![];
    let mut rest = s;
    while let Some(p) = rest.find(MSG_PREFIX) {
        let tail = &rest[p + MSG_PREFIX.len()..];
        let digits: String = tail.chars().take_while(|c| c.is_ascii_digit()).collect();
        if !digits.is_empty() && tail[digits.len()..].starts_with('#') {
            if let Ok(n) = digits.parse::<u64>() {
                // only the complete, unaltered message counts
                if tail[digits.len() + 1..].starts_with(msg_tail(n)) && !out.contains(&n) {
                    out.push(n);
                }
            }
        }
        rest = tail;
    }
    out
}

fn ids_token(s: &str, none: &str) -> String {
    let ids = ids_in(s);
    match ids.len() {
        0 => none.to_string(),
        1 => ids[0].to_string(),
        _ => format!("!{}", ids.iter().map(|i| i.to_string()).collect::<Vec<_>>().join("+")),
    }
}

/// where a thread's events go
#[derive(Clone)]
enum Sink {
    Local,
    Shared(Arc<Mutex<Vec<String>>>),
    Stdout,
}

struct Ctl {
    go: Receiver<()>,
    done: Sender<()>,
}

thread_local! {
    static TRACE: RefCell<Vec<String>> = const { RefCell::new(Vec::new()) };
    static SINK: RefCell<Sink> = const { RefCell::new(Sink::Local) };
    static CTL: RefCell<Option<Ctl>> = const { RefCell::new(None) };
    static DRAIN: Cell<bool> = const { Cell::new(false) };
}

fn ev(e: String) {
    let sink = SINK.with(|s| s.borrow().clone());
    match sink {
        Sink::Local => TRACE.with(|t| t.borrow_mut().push(e)),
        Sink::Shared(v) => v.lock().unwrap().push(e),
        Sink::Stdout => {
            use std::io::Write;
            let mut o = std::io::stdout().lock();
            let _ = writeln!(o, "ev {e}");
            let _ = o.flush();
        }
    }
}

/// wait for the coordinator's permission to take the next step
fn begin() {
    if DRAIN.with(|d| d.get()) {
        return;
    }
    let ok = CTL.with(|c| match &*c.borrow() {
        None => true,
        Some(ctl) => ctl.go.recv().is_ok(),
    });
    if !ok {
        DRAIN.with(|d| d.set(true));
    }
}

/// tell the coordinator the step is complete
fn end() {
    if DRAIN.with(|d| d.get()) {
        return;
    }
    CTL.with(|c| {
        if let Some(ctl) = &*c.borrow() {
            let _ = ctl.done.send(());
        }
    });
}

static SENTINEL: Once = Once::new();

/// Install the sentinel as the process hook (once). It records which message it was called
/// with on the panicking thread's event sink and prints nothing.
fn install_sentinel() {
    SENTINEL.call_once(|| {
        let _ = std::panic::take_hook();
        std::panic::set_hook(Box::new(|info| {
            let p = info.payload();
            let text = if let Some(s) = p.downcast_ref::<&str>() {
                (*s).to_string()
            } else if let Some(s) = p.downcast_ref::<String>() {
                s.clone()
            } else {
                String::new()
            };
            ev(format!("s{}", ids_token(&text, "!")));
        }));
    });
}

fn payload_ids(p: &(dyn std::any::Any + Send)) -> String {
    let text = if let Some(s) = p.downcast_ref::<&str>() {
        (*s).to_string()
    } else if let Some(s) = p.downcast_ref::<String>() {
        s.clone()
    } else {
        String::new()
    };
    ids_token(&text, "!")
}

fn run_ops(ops: &[Op]) {
    for op in ops {
        run_op(op);
    }
}

fn run_op(op: &Op) {
    match op {
        Op::Catch(body, v) => {
            begin();
            let r = catch_panic(AssertUnwindSafe(|| {
                end(); // entering catch_panic was one step
                run_ops(body);
                begin(); // returning from it is another
                *v
            }));
            match r {
                Ok(x) => ev(format!("k{x}")),
                Err(text) => {
                    let ids = ids_in(&text);
                    if ids.is_empty() {
                        if text.contains("panicked at '<unknown>' in file '<unknown>' at line 0") {
                            ev("e?".into())
                        } else {
                            ev("e!".into())
                        }
                    } else {
                        ev(format!("e{}", ids_token(&text, "!")))
                    }
                }
            }
            end();
        }
        Op::Panic(m) => {
            begin();
            // both payload kinds the hook knows: String (formatted) and &'static str
            if m % 2 == 0 {
                panic!("{}", msg_text(*m));
            } else {
                let s: &'static str = Box::leak(msg_text(*m).into_boxed_str());
                std::panic::panic_any(s);
            }
        }
        simple => {
            begin();
            match simple {
                Op::Enable => panic_catcher_enable(),
                Op::Disable => panic_catcher_disable(),
                Op::SetHook => panic_catcher_set_hook(),
                Op::Fallback(a) => {
                    let prev = panic_catcher_set_fallback_mode(if *a {
                        PanicCatcherFallbackMode::Abort
                    } else {
                        PanicCatcherFallbackMode::Continue
                    });
                    ev(match prev {
                        PanicCatcherFallbackMode::Continue => "fc".into(),
                        PanicCatcherFallbackMode::Abort => "fa".into(),
                    });
                }
                Op::Query => match panic_catcher_get_backtrace() {
                    None => ev("q-".into()),
                    Some(t) => ev(format!("q{}", ids_token(&t, "!"))),
                },
                _ => unreachable!(),
            }
            end();
        }
    }
}

/// the outermost level: every top-level op under the harness's own catch_unwind
fn run_top(ops: &[Op]) {
    for op in ops {
        if let Err(p) = std::panic::catch_unwind(AssertUnwindSafe(|| run_op(op))) {
            ev(format!("u{}", payload_ids(&*p)));
            end();
        }
    }
}

fn join_trace(v: &[String]) -> String {
    if v.is_empty() { "-".into() } else { v.join(",") }
}

/// Hygiene between in-process histories, done on the coordinating thread (never on the fresh
/// worker threads): with correct thread-locals this touches nothing a worker can see; should
/// catcher state ever leak across threads, it keeps one history's leak out of the next one so
/// that a reported history reproduces on its own.
fn reset_coordinator() {
    panic_catcher_disable();
    panic_catcher_set_fallback_mode(PanicCatcherFallbackMode::Continue);
}

/// one history on a fresh thread of this process (hook already installed)
fn run_in_process(ops: Vec<Op>) -> String {
    install_sentinel();
    panic_catcher_set_hook();
    reset_coordinator();
    let h = std::thread::Builder::new()
        .name("wfh-pcop".into())
        .spawn(move || {
            run_top(&ops);
            TRACE.with(|t| std::mem::take(&mut *t.borrow_mut()))
        })
        .expect("spawn");
    match h.join() {
        Ok(tr) => join_trace(&tr),
        Err(_) => "thread-panicked".into(),
    }
}

/// one history in a pristine child process of this binary
fn run_in_child(op_line: &str) -> String {
    // /proc/self/exe names the running image even if the file was rebuilt or removed meanwhile
    let exe = if std::path::Path::new("/proc/self/exe").exists() {
        std::path::PathBuf::from("/proc/self/exe")
    } else {
        match std::env::current_exe() {
            Ok(e) => e,
            Err(_) => return "no-exe".into(),
        }
    };
    let mut cmd = std::process::Command::new(exe);
    cmd.arg("replay").arg("pcop-child");
    for w in op_line.split(' ') {
        cmd.arg(w);
    }
    cmd.stderr(std::process::Stdio::null());
    cmd.stdin(std::process::Stdio::null());
    let out = match cmd.output() {
        Ok(o) => o,
        Err(_) => return "spawn-failed".into(),
    };
    let text = String::from_utf8_lossy(&out.stdout);
    let mut evs: Vec<String> = text
        .lines()
        .filter_map(|l| l.strip_prefix("ev ").map(|s| s.to_string()))
        .collect();
    #[cfg(unix)]
    {
        use std::os::unix::process::ExitStatusExt;
        if out.status.signal() == Some(libc::SIGABRT) {
            evs.push("abort".into());
        } else if !out.status.success() {
            evs.push(format!("exit-{:?}-{:?}", out.status.code(), out.status.signal()));
        }
    }
    join_trace(&evs)
}

/// body of the child process: `pcop <h0|h1> <toks>`
/// Pristine process: `threads` threads are released together; each installs the catcher's
/// hook (all racing on their FIRST `panic_catcher_set_hook` call), enables catching and then
/// repeatedly catches a panic with a unique message. Every `catch_panic` must return the text
/// of its own panic: a call made by another thread must not alter it.
fn race_child(threads: usize, iters: usize) -> String {
    install_sentinel();
    let barrier = std::sync::Arc::new(std::sync::Barrier::new(threads));
    let mut hs = Vec::new();
    for t in 0..threads {
        let barrier = barrier.clone();
        hs.push(
            std::thread::Builder::new()
                .name(format!("race{t}"))
                .spawn(move || -> Option<String> {
                    barrier.wait();
                    // stagger the first calls so that one thread can be between `take_hook`
                    // and `set_hook` while another one is already catching panics
                    let spin = std::time::Instant::now();
                    while spin.elapsed() < Duration::from_micros((t as u64 * 37) % 400) {
                        std::hint::spin_loop();
                    }
                    panic_catcher_set_hook();
                    panic_catcher_enable();
                    for k in 0..iters {
                        let msg = format!("race-{t}-{k}");
                        let m2 = msg.clone();
                        match catch_panic::<_, ()>(move || panic!("{}", m2)) {
                            Ok(_) => return Some(format!("thread {t} iteration {k}: catch_panic returned Ok")),
                            Err(text) if !text.contains(&msg) => {
                                return Some(format!(
                                    "thread {t} iteration {k}: error text lacks the panic message {msg:?}: {:?}",
                                    text.chars().take(80).collect::<String>()
                                ));
                            }
                            Err(_) => {}
                        }
                    }
                    None
                })
                .expect("spawn"),
        );
    }
    let mut bad = Vec::new();
    for h in hs {
        match h.join() {
            Ok(None) => {}
            Ok(Some(b)) => bad.push(b),
            Err(_) => bad.push("a racing thread panicked outside catch_panic".to_string()),
        }
    }
    if bad.is_empty() { "ok".to_string() } else { format!("lost: {}", bad[0]) }
}

/// Deterministic two-thread interleaving of two FIRST `panic_catcher_set_hook` calls, using
/// the cfg-guarded pause points: B decides to install and is held; A installs completely;
/// B then takes the hook (A's) and is held before setting its own; meanwhile A, whose
/// `panic_catcher_set_hook()` has returned, catches a panic. The property demands that A's
/// `catch_panic` returns the text of A's panic whatever B is doing.
fn race2_child() -> String {
    use wirefilter::verif_hooks as vh;
    install_sentinel();
    let wait_held = |id: u32, ms: u64| -> bool {
        let t = std::time::Instant::now();
        while vh::pause_held() != id {
            if t.elapsed() > Duration::from_millis(ms) {
                return false;
            }
            std::thread::yield_now();
        }
        true
    };
    vh::pause_arm(vh::PAUSE_SET_HOOK_DECIDED);
    let b = std::thread::spawn(|| panic_catcher_set_hook());
    if !wait_held(vh::PAUSE_SET_HOOK_DECIDED, 3000) {
        return "setup: thread B never reached the first pause point".to_string();
    }
    let (done_tx, done_rx) = channel::<()>();
    let (go_tx, go_rx) = channel::<()>();
    let a = std::thread::spawn(move || {
        panic_catcher_set_hook();
        let _ = done_tx.send(());
        let _ = go_rx.recv();
        panic_catcher_enable();
        catch_panic::<_, ()>(|| panic!("race2-message"))
    });
    let a_returned_early = done_rx.recv_timeout(Duration::from_millis(400)).is_ok();
    if a_returned_early {
        // A's installation completed while B was still deciding: let B take the hook now
        vh::pause_arm(vh::PAUSE_SET_HOOK_TAKEN);
        vh::pause_release(vh::PAUSE_SET_HOOK_DECIDED);
        let held = wait_held(vh::PAUSE_SET_HOOK_TAKEN, 3000);
        let _ = go_tx.send(());
        let res = a.join();
        if held {
            vh::pause_release(vh::PAUSE_SET_HOOK_TAKEN);
        }
        let _ = b.join();
        verdict(res)
    } else {
        // installations are serialised: A waits for B; nothing can be lost
        vh::pause_release(vh::PAUSE_SET_HOOK_DECIDED);
        let _ = done_rx.recv_timeout(Duration::from_millis(5000));
        let _ = go_tx.send(());
        let res = a.join();
        let _ = b.join();
        verdict(res)
    }
}

fn verdict(res: std::thread::Result<Result<(), String>>) -> String {
    match res {
        Ok(Err(text)) if text.contains("race2-message") => "ok".to_string(),
        Ok(Err(text)) => format!(
            "lost: catch_panic on thread A returned a text without A's panic message while thread B was inside its first panic_catcher_set_hook(): {:?}",
            text.chars().take(90).collect::<String>()
        ),
        Ok(Ok(())) => "lost: catch_panic returned Ok".to_string(),
        Err(_) => "lost: thread A's panic was not caught".to_string(),
    }
}

pub fn child(op: &str) -> Option<String> {
    let w: Vec<&str> = op.split(' ').collect();
    if w.len() == 1 && w[0] == "race2" {
        println!("{}", race2_child());
        return Some("child-done".into());
    }
    if w.len() == 3 && w[0] == "race" {
        let r = race_child(w[1].parse().ok()?, w[2].parse().ok()?);
        println!("{r}");
        return Some("child-done".into());
    }
    if w.len() != 3 || w[0] != "pcop" {
        return None;
    }
    #[cfg(unix)]
    unsafe {
        // abort() must not leave core files behind
        let lim = libc::rlimit { rlim_cur: 0, rlim_max: 0 };
        libc::setrlimit(libc::RLIMIT_CORE, &lim);
    }
    let ops = tree(&parse_toks(w[2])?);
    install_sentinel();
    match w[1] {
        "h1" => panic_catcher_set_hook(),
        "h0" => {}
        _ => return None,
    }
    let h = std::thread::Builder::new()
        .name("wfh-pcop".into())
        .spawn(move || {
            SINK.with(|s| *s.borrow_mut() = Sink::Stdout);
            run_top(&ops);
        })
        .expect("spawn");
    let _ = h.join();
    Some("child-done".into())
}

/// two threads driven step by step: `sched[k]` names the thread that takes step k
fn run_two(a: Vec<Op>, b: Vec<Op>, sched: &[usize]) -> String {
    install_sentinel();
    panic_catcher_set_hook();
    reset_coordinator();
    let mut gos = vec![];
    let mut dones = vec![];
    let mut traces = vec![];
    let mut handles = vec![];
    for ops in [a, b] {
        let (go_tx, go_rx) = channel::<()>();
        let (done_tx, done_rx) = channel::<()>();
        let tr = Arc::new(Mutex::new(Vec::<String>::new()));
        let tr2 = tr.clone();
        let h = std::thread::Builder::new()
            .name("wfh-pcop2".into())
            .spawn(move || {
                SINK.with(|s| *s.borrow_mut() = Sink::Shared(tr2));
                CTL.with(|c| *c.borrow_mut() = Some(Ctl { go: go_rx, done: done_tx }));
                run_top(&ops);
                // program finished: further steps are no-ops
                loop {
                    if DRAIN.with(|d| d.get()) {
                        break;
                    }
                    let got = CTL.with(|c| c.borrow().as_ref().unwrap().go.recv().is_ok());
                    if !got {
                        break;
                    }
                    CTL.with(|c| {
                        let _ = c.borrow().as_ref().unwrap().done.send(());
                    });
                }
            })
            .expect("spawn");
        gos.push(go_tx);
        dones.push(done_rx);
        traces.push(tr);
        handles.push(h);
    }
    let mut timeout = false;
    for &i in sched {
        if gos[i].send(()).is_err() {
            timeout = true;
            break;
        }
        if dones[i].recv_timeout(Duration::from_secs(120)).is_err() {
            timeout = true;
            break;
        }
    }
    let snap: Vec<String> = traces.iter().map(|t| join_trace(&t.lock().unwrap())).collect();
    drop(gos);
    if timeout {
        // do not join: a worker may be stuck
        return format!("timeout {} {}", snap[0], snap[1]);
    }
    for h in handles {
        let _ = h.join();
    }
    format!("{} {}", snap[0], snap[1])
}

// ---------------------------------------------------------------------------- generation

const ALPHA8: [Tok; 8] = [Tok::E, Tok::D, Tok::C, Tok::R, Tok::P(0), Tok::H, Tok::Fc, Tok::Q];
const ALPHA9: [Tok; 9] = [Tok::E, Tok::D, Tok::C, Tok::R, Tok::P(0), Tok::H, Tok::Fc, Tok::Q, Tok::Fa];

/// give every `P` its own message number, starting at `first`
fn number_panics(toks: &mut [Tok], first: u64) -> u64 {
    let mut n = first;
    for t in toks.iter_mut() {
        if let Tok::P(_) = t {
            *t = Tok::P(n);
            n += 1;
        }
    }
    n
}

fn canon(toks: &[Tok]) -> (Vec<Op>, String) {
    let ops = tree(toks);
    let mut r = vec![];
    render(&ops, &mut r);
    (ops, if r.is_empty() { ".".into() } else { r.join(",") })
}

fn nth_seq(alpha: &[Tok], len: usize, mut idx: u64) -> Vec<Tok> {
    let mut v = Vec::with_capacity(len);
    for _ in 0..len {
        v.push(alpha[(idx % alpha.len() as u64) as usize]);
        idx /= alpha.len() as u64;
    }
    v
}

fn has_catch_with_panic(ops: &[Op]) -> bool {
    fn any_panic(ops: &[Op]) -> bool {
        ops.iter().any(|o| match o {
            Op::Panic(_) => true,
            Op::Catch(b, _) => any_panic(b),
            _ => false,
        })
    }
    ops.iter().any(|o| match o {
        Op::Catch(b, _) => any_panic(b) || has_catch_with_panic(b),
        _ => false,
    })
}

fn depth(ops: &[Op]) -> usize {
    ops.iter()
        .map(|o| match o {
            Op::Catch(b, _) => 1 + depth(b),
            _ => 0,
        })
        .max()
        .unwrap_or(0)
}

fn record(out: &mut Out, op: &str, ans: &str, ops: &[Op], canon: &str, kind: &str, len: usize) {
    let nontrivial = has_catch_with_panic(ops);
    out.case(
        op,
        ans,
        if nontrivial { Some(canon) } else { None },
        &[kind, &format!("{kind}.len{len}"), &format!("{kind}.depth{}", depth(ops).min(4))],
    );
    if ans.contains("abort") {
        out.tag(&format!("{kind}.aborted"));
    }
    if ans.contains('e') {
        out.tag(&format!("{kind}.caught-panic"));
    }
    if ans.contains('s') {
        out.tag(&format!("{kind}.sentinel-reached"));
    }
}

pub fn run(cfg: Cfg, out: &mut Out) {
    let mut seen: std::collections::HashSet<u64> = std::collections::HashSet::new();
    fn h64(s: &str) -> u64 {
        use std::hash::{Hash, Hasher};
        let mut h = std::collections::hash_map::DefaultHasher::new();
        s.hash(&mut h);
        h.finish()
    }
    let part = std::env::var("WFH_PCOP_PART").unwrap_or_default(); // debugging aid: run one part only
    let on = |p: &str| part.is_empty() || part == p;
    // (0) racing first installations of the hook, in pristine child processes
    if on("race") {
        let n = cfg.share(if cfg.quick() { 48 } else { 1_200 });
        for k in 0..n {
            let threads = [4usize, 8, 16][(k % 3) as usize];
            let op = format!("oracle pcop-race {threads} 25 #{}-{k}", cfg.shard);
            let exe = std::fs::read_link("/proc/self/exe").unwrap_or_else(|_| std::env::current_exe().unwrap());
            let res = std::process::Command::new(exe)
                .args(["replay", "pcop-child", "race", &threads.to_string(), "25"])
                .stderr(std::process::Stdio::null())
                .output();
            let ans = match res {
                Ok(o) => {
                    let s = String::from_utf8_lossy(&o.stdout);
                    let first = s.lines().next().unwrap_or("").to_string();
                    if first == "ok" { "ok".to_string() } else if first.is_empty() { format!("child died: {:?}", o.status) } else { first }
                }
                Err(e) => format!("spawn failed: {e}"),
            };
            if ans != "ok" {
                out.impl_failure(&op, &format!("{threads} threads racing their first panic_catcher_set_hook(): {ans}"));
            }
            out.case(&op, &ans.replace(' ', "_"), Some(&op), &["race"]);
        }
    }
    if on("race") && cfg.shard == 0 {
        for k in 0..3 {
            let op = format!("oracle pcop-race2 #{k}");
            let exe = std::fs::read_link("/proc/self/exe").unwrap_or_else(|_| std::env::current_exe().unwrap());
            let res = std::process::Command::new(exe)
                .args(["replay", "pcop-child", "race2"])
                .stderr(std::process::Stdio::null())
                .output();
            let ans = match res {
                Ok(o) => {
                    let s = String::from_utf8_lossy(&o.stdout);
                    let first = s.lines().next().unwrap_or("").to_string();
                    if first.is_empty() { format!("child died: {:?}", o.status) } else { first }
                }
                Err(e) => format!("spawn failed: {e}"),
            };
            if ans != "ok" {
                out.impl_failure(&op, &format!("two racing first panic_catcher_set_hook() calls: {ans}"));
            }
            out.case(&op, &ans.replace(' ', "_"), Some(&op), &["race2"]);
        }
    }
    // (3) two threads, sequences up to length 3 each, interleaved step by step (first in the
    // output: a cross-thread leak is reported with a self-contained two-thread history)
    let mut rng = cfg.rng();
    let n2 = if !on("two") { 0 } else { cfg.share(if cfg.quick() { 5_000 } else { 100_000 }) };
    for _ in 0..n2 {
        let la = if rng.chance(1, 12) { 0 } else { 1 + rng.below(3) as usize };
        let lb = if rng.chance(1, 12) { 0 } else { 1 + rng.below(3) as usize };
        let mut ta: Vec<Tok> = (0..la).map(|_| *rng.pick(&ALPHA8)).collect();
        let mut tb: Vec<Tok> = (0..lb).map(|_| *rng.pick(&ALPHA8)).collect();
        // catching only happens when enabled: enable in half of the threads
        if la > 0 && rng.chance(1, 2) {
            ta[0] = Tok::E;
        }
        if lb > 0 && rng.chance(1, 2) {
            tb[0] = Tok::E;
        }
        let n = number_panics(&mut ta, 1);
        number_panics(&mut tb, n);
        let (a, ca) = canon(&ta);
        let (b, cb) = canon(&tb);
        // a complete interleaving: every thread gets as many steps as its program can take
        let (sa, sb) = (steps(&a), steps(&b));
        let mut sched: Vec<usize> = std::iter::repeat(0).take(sa).chain(std::iter::repeat(1).take(sb)).collect();
        for k in (1..sched.len()).rev() {
            let j = rng.below(k as u64 + 1) as usize;
            sched.swap(k, j);
        }
        let ss: String = if sched.is_empty() { ".".into() } else { sched.iter().map(|i| char::from(b'0' + *i as u8)).collect() };
        let op = format!("pcop2 h1 {ca} {cb} {ss}");
        let ans = run_two(a.clone(), b.clone(), &sched);
        let key = format!("{ca} {cb} {ss}");
        let nontrivial = has_catch_with_panic(&a) || has_catch_with_panic(&b);
        let switches = sched.windows(2).filter(|w| w[0] != w[1]).count();
        out.case(&op, &ans, if nontrivial && switches >= 2 { Some(&key) } else { None }, &["two", &format!("two.switches{}", switches.min(9))]);
    }
    // (1) in process, hook installed: every token sequence up to the bound over the 8 steps
    // of the property, followed by a probe panic at the outermost level (reaches the sentinel
    // iff the level is back to 0; an underflow would abort in stop_catching).
    let maxlen = if !on("seq") { -1i32 } else if cfg.quick() { 5 } else { 7 };
    let mut index = 0u64;
    for len in 0..=maxlen {
        let len = len as usize;
        let total = (ALPHA8.len() as u64).pow(len as u32);
        for i in 0..total {
            let mut toks = nth_seq(&ALPHA8, len, i);
            number_panics(&mut toks, 1);
            let (mut ops, mut c) = canon(&toks);
            if !seen.insert(h64(&c)) {
                continue;
            }
            index += 1;
            if !cfg.mine(index) {
                continue;
            }
            ops.push(Op::Panic(0));
            c = if c == "." { "P0".into() } else { format!("{c},P0") };
            let op = format!("pcop h1 {c}");
            let ans = run_in_process(ops.clone());
            record(out, &op, &ans, &ops, &c, "seq", len);
        }
    }
    // (1b) the same with catching enabled from the start, one step longer
    if maxlen >= 0 {
        // (without the two steps that change nothing once the hook is installed)
        const ALPHA6: [Tok; 6] = [Tok::E, Tok::D, Tok::C, Tok::R, Tok::P(0), Tok::Q];
        let len = if cfg.quick() { maxlen as usize } else { maxlen as usize - 1 };
        let total = (ALPHA6.len() as u64).pow(len as u32);
        for i in 0..total {
            let mut toks = vec![Tok::E];
            toks.extend(nth_seq(&ALPHA6, len, i));
            number_panics(&mut toks, 1);
            let (mut ops, mut c) = canon(&toks);
            if !seen.insert(h64(&c)) {
                continue;
            }
            index += 1;
            if !cfg.mine(index) {
                continue;
            }
            ops.push(Op::Panic(0));
            c = format!("{c},P0");
            let op = format!("pcop h1 {c}");
            let ans = run_in_process(ops.clone());
            record(out, &op, &ans, &ops, &c, "seqE", len + 1);
        }
    }
    // (2) pristine child processes: hook not yet installed, fallback mode Abort allowed
    let childlen = if !on("child") { -1i32 } else if cfg.quick() { 3 } else { 4 };
    seen.clear();
    index = 0;
    for len in 0..=childlen {
        let len = len as usize;
        let total = (ALPHA9.len() as u64).pow(len as u32);
        for i in 0..total {
            let mut toks = nth_seq(&ALPHA9, len, i);
            number_panics(&mut toks, 1);
            let (ops, c) = canon(&toks);
            if !seen.insert(h64(&c)) {
                continue;
            }
            index += 1;
            if !cfg.mine(index) {
                continue;
            }
            let op = format!("pcop h0 {c}");
            let ans = run_in_child(&op);
            record(out, &op, &ans, &ops, &c, "child", len);
        }
    }
    // longer random child histories (h0 and h1), incl. Abort
    let nrand = if !on("childrand") { 0 } else { cfg.share(if cfg.quick() { 300 } else { 2000 }) };
    for _ in 0..nrand {
        let len = 4 + rng.below(5) as usize;
        let mut toks: Vec<Tok> = (0..len).map(|_| *rng.pick(&ALPHA9)).collect();
        // bias towards installing the hook and catching
        if rng.chance(1, 2) {
            toks.insert(rng.below(2) as usize, Tok::E);
        }
        number_panics(&mut toks, 1);
        let (ops, c) = canon(&toks);
        let h = if rng.chance(1, 2) { "h0" } else { "h1" };
        let op = format!("pcop {h} {c}");
        let ans = run_in_child(&op);
        record(out, &op, &ans, &ops, &c, "childrand", len.min(9));
    }
    out.notes.push("C19 note F7: panic_catcher_set_hook is load/take_hook/set_hook/store without mutual exclusion; two racing first calls can drop the previously installed hook (Lean: setHook_not_atomic_loses_previous). Outside the property's step granularity; not exercised on real threads.".into());
}

pub fn replay(op: &str) -> Option<String> {
    let w: Vec<&str> = op.split(' ').collect();
    match w.first().copied() {
        Some("pcop") if w.len() == 3 => {
            parse_toks(w[2])?;
            Some(run_in_child(op))
        }
        Some("pcop2") if w.len() == 5 && w[1] == "h1" => {
            let a = tree(&parse_toks(w[2])?);
            let b = tree(&parse_toks(w[3])?);
            let sched: Option<Vec<usize>> = if w[4] == "." {
                Some(vec![])
            } else {
                w[4].chars()
                    .map(|c| match c {
                        '0' => Some(0),
                        '1' => Some(1),
                        _ => None,
                    })
                    .collect()
            };
            Some(run_two(a, b, &sched?))
        }
        _ => None,
    }
}
