//! C11 (regex half) — `b matches <literal>` through real filters.
//!
//! A. quoted-regex scanner: ALL sources over {a, \, ", [, ], -} up to length N written
//!    after an opening quote (+ closing quote + optional rest), parsed by the real parser;
//!    the pattern string in the AST JSON, where the literal ended (from the AST / the error
//!    position) and the error class are compared with the model scanner.
//! B. generated patterns from a regex subset, in quoted and raw spelling: both spellings
//!    must show the same pattern string in the AST JSON (= the generated one, = the model
//!    scanner's output) and must match identically over values incl. non-UTF-8 bytes, `\n`,
//!    upper/lower case, empty; the result is also compared with a small backtracking
//!    reference matcher for the subset (byte-oriented, unanchored search).
//! C. targeted semantics table (byte-oriented `.`/classes/`\w`, `(?i)`, `(?s)`, anchors, unanchored).
//! D. compiled-size limit: oversize patterns under a small `regex_set_compiled_size_limit`
//!    are rejected at parse time, accepted under the default.
//!
//! op lines (see lean/WfModel/Drv/Wild.lean, lean/WfModel/Drv/Rx.lean):
//!   rxscan <hex text after the opening quote> <p|e|o|r>
//!   rxm match <hex pattern> <hex value> <m|s>      pattern given to the engine in raw spelling
//!   rxm lit <hex literal as written> <hex value> <m|s>   (quoted or raw literal)
//!   rxm targeted <hex literal as written> <hex value> <m|s>
//!       answered by the PROVED derivative matcher of lean/WfModel/Model/Rx.lean when the
//!       pattern is inside the model's subset. `m` = the generator claims it is (the driver
//!       answers `nosubset` instead of `skip` if its parser disagrees, which shows up as a
//!       disagreement), `s` = the driver may answer `skip` (flags `(?i)`, `(?s)`, `(?-u:`).
//!       All of them are additionally checked harness-side against the reference matcher.
//!   rxm invalid|size|rejected ...   (model answers `skip`; checked harness-side)
use super::wild::error_kind_text;
use crate::Cfg;
use crate::out::{Out, hex};
use crate::rng::Rng;
use std::panic::{AssertUnwindSafe, catch_unwind};
use wirefilter::{ExecutionContext, Filter, FilterAst, Scheme, SchemeBuilder, Type};

fn scheme() -> Scheme {
    let mut b = SchemeBuilder::new();
    b.add_field("b", Type::Bytes).unwrap();
    b.build()
}

// ------------------------------------------------------------------------------ scanner

/// (pattern, reconstructed rest) from the AST JSON of `b matches … [or b == "w"]*`
fn pattern_and_rest(ast: &FilterAst) -> Option<(String, String)> {
    let v = serde_json::to_value(ast).ok()?;
    fn cmp(v: &serde_json::Value) -> Option<String> {
        if v.get("op")?.as_str()? == "Matches" && v.get("lhs")?.as_str()? == "b" {
            Some(v.get("rhs")?.as_str()?.to_string())
        } else {
            None
        }
    }
    if let Some(p) = cmp(&v) {
        return Some((p, String::new()));
    }
    if v.get("op")?.as_str()? == "Or" {
        let items = v.get("items")?.as_array()?;
        let p = cmp(items.first()?)?;
        let mut rest = String::new();
        for it in &items[1..] {
            if it.get("op")?.as_str()? != "Equal" || it.get("lhs")?.as_str()? != "b" {
                return None;
            }
            rest.push_str(&format!(" or b == \"{}\"", it.get("rhs")?.as_str()?));
        }
        return Some((p, rest));
    }
    None
}

/// byte offset of the error span within the (single-line) input, from the Display header
fn error_offset(e: &wirefilter::ParseError<'_>) -> Option<usize> {
    let t = e.to_string();
    let head = t.lines().next()?;
    let inner = head.strip_prefix("Filter parsing error (")?.strip_suffix("):")?;
    let (l, c) = inner.split_once(':')?;
    if l != "1" {
        return None;
    }
    c.parse::<usize>().ok()?.checked_sub(1)
}

/// parse `b matches "<after>` and describe the outcome as (mode, answer)
fn scan_case(s: &Scheme, after: &str) -> (char, String) {
    let text = format!("b matches \"{after}");
    let prefix = "b matches \"".len();
    let r = catch_unwind(AssertUnwindSafe(|| match s.parse(&text) {
        Ok(ast) => match pattern_and_rest(&ast) {
            Some((p, rest)) => ('p', format!("ok {} {}", hex(p.as_bytes()), hex(rest.as_bytes()))),
            None => ('p', "ok ? ?".to_string()),
        },
        Err(e) => {
            let k = error_kind_text(&e);
            if k.contains("could not find an ending quote") {
                ('p', "err".to_string())
            } else if k.contains("regex parse error") || k.contains("Compiled regex exceeds size limit") {
                ('e', "rxerr".to_string())
            } else if k == "unrecognised input" {
                match error_offset(&e) {
                    Some(off) if off >= prefix && off <= text.len() => ('r', format!("rest {}", hex(text[off..].trim().as_bytes()))),
                    _ => ('o', "other".to_string()),
                }
            } else {
                ('o', "other".to_string())
            }
        }
    }));
    r.unwrap_or(('p', "panic".to_string()))
}

/// Rust twin of the model's `escapeForQuoted`
pub fn escape_for_quoted(p: &str) -> Option<String> {
    let mut out = String::new();
    let mut cls = false;
    let mut it = p.chars();
    while let Some(c) = it.next() {
        match c {
            '\\' => {
                let d = it.next()?;
                if d == '"' && !cls {
                    return None;
                }
                out.push('\\');
                out.push(d);
            }
            '"' if !cls => out.push_str("\\\""),
            '[' if !cls => {
                cls = true;
                out.push('[');
            }
            ']' if cls => {
                cls = false;
                out.push(']');
            }
            c => out.push(c),
        }
    }
    if cls { None } else { Some(out) }
}

fn raw_literal(p: &str) -> String {
    // smallest n such that the body contains no `"` followed by n hashes
    let mut n = 0;
    loop {
        let close = format!("\"{}", "#".repeat(n));
        if !p.contains(&close) {
            let h = "#".repeat(n);
            return format!("r{h}\"{p}\"{h}");
        }
        n += 1;
    }
}

// ------------------------------------------------------------------------------ subset

#[derive(Clone, Debug)]
enum Re {
    Byte(u8),
    Hex(u8),
    Char(char), // written as itself: unescaped ASCII punctuation or a non-ASCII character (UTF-8 bytes)
    Dot,
    Class(bool, Vec<(u8, u8)>, bool), // negated, ranges, quote written as \" inside the class
    Perl(char),
    Cat(Vec<Re>),
    Alt(Vec<Re>),
    Rep(Box<Re>, char),
    Group(Box<Re>, bool), // capturing?
    Bol,
    Eol,
}

fn render_byte(c: u8, out: &mut String) {
    match c {
        b'\n' => out.push_str("\\n"),
        b'"' => out.push('"'),
        c if c.is_ascii_alphanumeric() || c == b' ' || c == b'_' => out.push(c as char),
        c if (0x21..0x7f).contains(&c) => {
            out.push('\\');
            out.push(c as char)
        }
        c => out.push_str(&format!("\\x{c:02x}")),
    }
}

fn render_class_byte(c: u8, esc_quote: bool, out: &mut String) {
    match c {
        b'"' => out.push_str(if esc_quote { "\\\"" } else { "\"" }),
        c if c.is_ascii_alphanumeric() || c == b' ' || c == b'_' => out.push(c as char),
        b'\n' => out.push_str("\\n"),
        c if (0x21..0x7f).contains(&c) => {
            out.push('\\');
            out.push(c as char)
        }
        c => out.push_str(&format!("\\x{c:02x}")),
    }
}

fn render(re: &Re, out: &mut String) {
    match re {
        Re::Byte(c) => render_byte(*c, out),
        Re::Hex(c) => out.push_str(&format!("\\x{c:02x}")),
        Re::Char(c) => out.push(*c),
        Re::Dot => out.push('.'),
        Re::Class(neg, rs, eq) => {
            out.push('[');
            if *neg {
                out.push('^');
            }
            for (a, b) in rs {
                render_class_byte(*a, *eq, out);
                if a != b {
                    out.push('-');
                    render_class_byte(*b, *eq, out);
                }
            }
            out.push(']');
        }
        Re::Perl(c) => {
            out.push('\\');
            out.push(*c)
        }
        Re::Cat(xs) => {
            for x in xs {
                if matches!(x, Re::Alt(_)) {
                    out.push_str("(?:");
                    render(x, out);
                    out.push(')');
                } else {
                    render(x, out)
                }
            }
        }
        Re::Alt(xs) => {
            for (i, x) in xs.iter().enumerate() {
                if i > 0 {
                    out.push('|');
                }
                render(x, out);
            }
        }
        Re::Rep(x, k) => {
            match **x {
                Re::Byte(_) | Re::Hex(_) | Re::Char(_) | Re::Dot | Re::Class(..) | Re::Perl(_) | Re::Group(..) => render(x, out),
                _ => {
                    out.push_str("(?:");
                    render(x, out);
                    out.push(')');
                }
            }
            out.push(*k);
        }
        Re::Group(x, cap) => {
            out.push_str(if *cap { "(" } else { "(?:" });
            render(x, out);
            out.push(')');
        }
        Re::Bol => out.push('^'),
        Re::Eol => out.push('$'),
    }
}

#[derive(Clone, Copy)]
struct Flags {
    ci: bool,
    dotall: bool,
}

fn swapcase(c: u8) -> u8 {
    if c.is_ascii_lowercase() {
        c.to_ascii_uppercase()
    } else if c.is_ascii_uppercase() {
        c.to_ascii_lowercase()
    } else {
        c
    }
}

fn perl(c: char, b: u8) -> bool {
    match c {
        'd' => b.is_ascii_digit(),
        'w' => b.is_ascii_alphanumeric() || b == b'_',
        's' => matches!(b, b'\t' | b'\n' | 0x0b | 0x0c | b'\r' | b' '),
        'D' => !b.is_ascii_digit(),
        'W' => !(b.is_ascii_alphanumeric() || b == b'_'),
        'S' => !matches!(b, b'\t' | b'\n' | 0x0b | 0x0c | b'\r' | b' '),
        _ => false,
    }
}

/// backtracking reference matcher: does `re` match `inp` starting at `i`, continuing with `k`?
fn m(re: &Re, inp: &[u8], i: usize, f: Flags, k: &mut dyn FnMut(usize) -> bool) -> bool {
    let one = |ok: &dyn Fn(u8) -> bool, k: &mut dyn FnMut(usize) -> bool| i < inp.len() && ok(inp[i]) && k(i + 1);
    match re {
        Re::Byte(c) | Re::Hex(c) => one(&|b| b == *c || (f.ci && swapcase(b) == *c), k),
        Re::Char(c) => {
            let mut buf = [0u8; 4];
            let bs = c.encode_utf8(&mut buf).as_bytes();
            let n = bs.len();
            i + n <= inp.len() && (0..n).all(|j| inp[i + j] == bs[j] || (f.ci && swapcase(inp[i + j]) == bs[j])) && k(i + n)
        }
        Re::Dot => one(&|b| b != b'\n' || f.dotall, k),
        Re::Class(neg, rs, _) => one(
            &|b| {
                let inset = rs.iter().any(|(lo, hi)| (*lo <= b && b <= *hi) || (f.ci && *lo <= swapcase(b) && swapcase(b) <= *hi));
                inset != *neg
            },
            k,
        ),
        Re::Perl(c) => one(&|b| perl(*c, b), k),
        Re::Cat(xs) => cat(xs, inp, i, f, k),
        Re::Alt(xs) => xs.iter().any(|x| m(x, inp, i, f, k)),
        Re::Group(x, _) => m(x, inp, i, f, k),
        Re::Bol => i == 0 && k(i),
        Re::Eol => i == inp.len() && k(i),
        Re::Rep(x, kind) => match kind {
            '?' => m(x, inp, i, f, k) || k(i),
            '*' => star(x, inp, i, f, k),
            _ => m(x, inp, i, f, &mut |j| star(x, inp, j, f, k)),
        },
    }
}

fn cat(xs: &[Re], inp: &[u8], i: usize, f: Flags, k: &mut dyn FnMut(usize) -> bool) -> bool {
    match xs.split_first() {
        None => k(i),
        Some((x, rest)) => m(x, inp, i, f, &mut |j| cat(rest, inp, j, f, k)),
    }
}

fn star(x: &Re, inp: &[u8], i: usize, f: Flags, k: &mut dyn FnMut(usize) -> bool) -> bool {
    k(i) || m(x, inp, i, f, &mut |j| j > i && star(x, inp, j, f, k))
}

fn search(re: &Re, inp: &[u8], f: Flags) -> bool {
    (0..=inp.len()).any(|s| m(re, inp, s, f, &mut |_| true))
}

const LITS: &[u8] = b"abAB01 _.\"[]-^$*+?()|\\/{}#&~\n";
/// characters written as themselves: punctuation that needs no escape outside a class
/// (`]` and `}` included), and non-ASCII characters of 2, 3 and 4 UTF-8 bytes
const CHARS: &[char] = &[']', '}', '/', '#', '&', '~', '-', ',', ':', '=', '!', '@', '%', '<', '>', '\'', ';', 'é', 'é', 'ß', '€', '😀'];

fn gen_atom(rng: &mut Rng, depth: u32) -> Re {
    match rng.below(if depth == 0 { 9 } else { 12 }) {
        0 => Re::Char(*rng.pick(CHARS)),
        1..=3 => Re::Byte(*rng.pick(LITS)),
        4 => Re::Hex(*rng.pick(&[0x00u8, 0x0a, 0x7f, 0x80, 0xc3, 0xa9, 0xff])),
        5 => Re::Dot,
        6 | 7 => {
            let n = 1 + rng.below(3);
            let mut rs = Vec::new();
            for _ in 0..n {
                let a = *rng.pick(&[b'a', b'b', b'A', b'0', b'"', b']', b'[', b'-', b'^', b'\\', 0x80, 0xff, b'\n', b'z']);
                let b = if rng.chance(1, 3) { a.saturating_add(rng.below(4) as u8) } else { a };
                rs.push((a, b));
            }
            Re::Class(rng.chance(1, 3), rs, rng.chance(1, 2))
        }
        8 => Re::Perl(*rng.pick(&['d', 'w', 's', 'D', 'W', 'S'])),
        9 | 10 => {
            let anchors = rng.chance(1, 3);
            Re::Group(Box::new(gen_re(rng, depth - 1, anchors)), rng.chance(1, 2))
        }
        _ => Re::Rep(Box::new(gen_atom(rng, depth - 1)), *rng.pick(&['?', '*', '+'])),
    }
}

fn gen_re(rng: &mut Rng, depth: u32, anchors: bool) -> Re {
    let nalt = if depth > 0 && rng.chance(1, 4) { 2 + rng.below(2) } else { 1 };
    let mut alts = Vec::new();
    for _ in 0..nalt {
        let n = 1 + rng.below(4);
        let mut xs = Vec::new();
        if anchors && rng.chance(1, 5) {
            xs.push(Re::Bol);
        }
        for _ in 0..n {
            let a = gen_atom(rng, depth);
            if rng.chance(1, 4) && !matches!(a, Re::Rep(..)) {
                xs.push(Re::Rep(Box::new(a), *rng.pick(&['?', '*', '+'])));
            } else {
                xs.push(a);
            }
        }
        if anchors && rng.chance(1, 5) {
            xs.push(Re::Eol);
        }
        alts.push(if xs.len() == 1 { xs.pop().unwrap() } else { Re::Cat(xs) });
    }
    if alts.len() == 1 { alts.pop().unwrap() } else { Re::Alt(alts) }
}

/// sample a string the expression matches (roughly), for values that exercise it
fn sample(re: &Re, rng: &mut Rng, out: &mut Vec<u8>) {
    match re {
        Re::Byte(c) | Re::Hex(c) => out.push(*c),
        Re::Char(c) => {
            let mut buf = [0u8; 4];
            out.extend_from_slice(c.encode_utf8(&mut buf).as_bytes());
        }
        Re::Dot => out.push(*rng.pick(&[b'x', 0xff, b'A'])),
        Re::Class(neg, rs, _) => {
            if *neg {
                out.push(*rng.pick(&[b'q', 0xfe, b'\n']))
            } else {
                let (a, b) = *rng.pick(rs);
                out.push(a + (rng.below((b - a) as u64 + 1) as u8));
            }
        }
        Re::Perl(c) => out.push(match c {
            'd' => b'7',
            'w' => b'_',
            's' => b'\t',
            'D' => b'x',
            'W' => 0xff,
            _ => b'y',
        }),
        Re::Cat(xs) => xs.iter().for_each(|x| sample(x, rng, out)),
        Re::Alt(xs) => sample(rng.pick(xs), rng, out),
        Re::Group(x, _) => sample(x, rng, out),
        Re::Rep(x, k) => {
            let n = match k {
                '?' => rng.below(2),
                '*' => rng.below(3),
                _ => 1 + rng.below(2),
            };
            for _ in 0..n {
                sample(x, rng, out);
            }
        }
        Re::Bol | Re::Eol => {}
    }
}

fn compile_lit(s: &Scheme, lit: &str) -> Result<(Filter, String), String> {
    let text = format!("b matches {lit}");
    let r = catch_unwind(AssertUnwindSafe(|| match s.parse(&text) {
        Ok(ast) => {
            let p = pattern_and_rest(&ast).map(|x| x.0).unwrap_or_else(|| "?".to_string());
            Ok((ast.compile(), p))
        }
        Err(e) => Err(error_kind_text(&e)),
    }));
    r.unwrap_or(Err("panic".to_string()))
}

fn exec(s: &Scheme, f: &Filter, v: &[u8]) -> String {
    catch_unwind(AssertUnwindSafe(|| {
        let mut ctx = ExecutionContext::new(s);
        ctx.set_field_value(s.get_field("b").unwrap(), v.to_vec()).unwrap();
        f.execute(&ctx).map(|b| b.to_string()).unwrap_or_else(|_| "err".into())
    }))
    .unwrap_or_else(|_| "panic".into())
}

fn subset_case(s: &Scheme, out: &mut Out, rng: &mut Rng) {
    let re = gen_re(rng, 2, true);
    let flags = Flags { ci: rng.chance(1, 8), dotall: rng.chance(1, 10) };
    // everything the generator writes except the flag prefix is inside the model's subset
    let in_model = !(flags.ci || flags.dotall);
    let mflag = if in_model { "m" } else { "s" };
    let mtag = if in_model { "rxm.model_answers" } else { "rxm.model_may_skip" };
    let mut p = String::new();
    if flags.ci || flags.dotall {
        p.push_str("(?");
        if flags.ci {
            p.push('i');
        }
        if flags.dotall {
            p.push('s');
        }
        p.push(')');
    }
    render(&re, &mut p);
    let raw = raw_literal(&p);
    let quoted = escape_for_quoted(&p).map(|q| format!("\"{q}\""));
    let fr = compile_lit(s, &raw);
    let (fraw, praw) = match fr {
        Ok(x) => x,
        Err(k) => {
            // the generator is supposed to emit valid patterns only
            out.tag("subset.rejected_by_engine");
            out.case(&format!("rxm rejected {}", hex(p.as_bytes())), &format!("err {}", hex(k.lines().last().unwrap_or("").as_bytes())), None, &["rx.subset.rejected"]);
            return;
        }
    };
    if praw != p {
        out.impl_failure(&format!("b matches {raw}"), &format!("raw regex literal: AST JSON shows pattern {praw:?}, written {p:?}"));
    }
    let fq = match &quoted {
        Some(q) => {
            // the scanner op: model scans the quoted source and must arrive at the same pattern
            let after = &q[1..];
            let (mode, ans) = scan_case(s, after);
            let op = format!("rxscan {} {mode}", hex(after.as_bytes()));
            out.case(&op, &ans, Some(&op), &["rx.subset.scan", if p.contains('"') { "rx.has_quote" } else { "rx.no_quote" }]);
            let expect = format!("ok {} -", hex(p.as_bytes()));
            if ans != expect {
                out.impl_failure(&op, &format!("quoted spelling {q} of pattern {p:?}: engine answered {ans}, expected {expect}"));
            }
            compile_lit(s, q).ok()
        }
        None => {
            out.tag("subset.no_quoted_spelling");
            None
        }
    };
    // values
    let mut vals: Vec<Vec<u8>> = vec![vec![], b"\n".to_vec(), b"a".to_vec(), b"A".to_vec(), vec![0xff], b"ab".to_vec(), b"xAbx".to_vec(), "é".as_bytes().to_vec(), b"\"".to_vec(), b"a\nb".to_vec()];
    for _ in 0..6 {
        let mut v = Vec::new();
        sample(&re, rng, &mut v);
        let mut w = v.clone();
        vals.push(v);
        // mutations: swap case, wrap, drop a byte
        match rng.below(4) {
            0 => w.iter_mut().for_each(|c| *c = swapcase(*c)),
            1 => {
                w.insert(0, b'x');
                w.push(0xff)
            }
            2 => {
                if !w.is_empty() {
                    w.remove(rng.below(w.len() as u64) as usize);
                }
            }
            _ => w.push(b'\n'),
        }
        vals.push(w);
    }
    for v in &vals {
        let a = exec(s, &fraw, v);
        let op = format!("rxm match {} {} {mflag}", hex(p.as_bytes()), hex(v));
        out.case(&op, &a, Some(&op), &["rx.subset.match", mtag, if a == "true" { "ans.true" } else { "ans.false" }, if v.iter().any(|c| *c >= 0x80) { "val.nonutf8" } else { "val.ascii" }]);
        if let Some((fq, _)) = &fq {
            let b = exec(s, fq, v);
            // the quoted spelling goes through the engine's scanner and, in the model, through
            // the model scanner + the proved matcher
            let opq = format!("rxm lit {} {} {mflag}", hex(quoted.as_ref().unwrap().as_bytes()), hex(v));
            out.case(&opq, &b, Some(&opq), &["rx.subset.match_quoted", mtag]);
            if a != b {
                out.impl_failure(&op, &format!("quoted and raw spelling of {p:?} disagree on value {}: raw {a}, quoted {b}", hex(v)));
            }
        }
        let r = search(&re, v, flags).to_string();
        if a != r {
            out.impl_failure(&op, &format!("pattern {p:?} on value {}: engine {a}, reference matcher (byte-oriented unanchored search) {r}", hex(v)));
        }
    }
}

fn targeted(s: &Scheme, out: &mut Out) {
    // (pattern, value, expected)
    let t: &[(&str, &[u8], bool)] = &[
        (".", b"\xff", true),
        (".", b"\n", false),
        ("(?s).", b"\n", true),
        ("^.$", "é".as_bytes(), false), // two bytes, not one scalar value
        ("^..$", "é".as_bytes(), true),
        (r"\w", "é".as_bytes(), false),
        (r"\W", "é".as_bytes(), true),
        (r"\d", "٣".as_bytes(), false),
        (r"\s", b"\x0b", true),
        (r"\xff", b"a\xffb", true),
        (r"[^a]", b"\xff", true),
        (r"[\x80-\xff]+$", b"ab\x80\xfe", true),
        ("é", b"x\xc3\xa9y", true),
        ("(?i)é", "É".as_bytes(), false), // ASCII-only folding
        ("(?i)straSSe", b"STRASSE", true),
        ("(?i)k", "\u{212a}".as_bytes(), false), // KELVIN SIGN folds to k only with Unicode on
        ("a", b"A", false),
        ("(?i)a", b"A", true),
        ("(?i)[a-c]+$", b"xAbC", true),
        ("b", b"abc", true), // unanchored
        ("^b", b"abc", false),
        ("b$", b"abc", false),
        ("^abc$", b"abc", true),
        ("^abc$", b"abc\n", false), // no multi-line, `$` is end of haystack only
        ("a|b", b"xxb", true),
        ("", b"", true),
        ("", b"anything", true),
        ("a*", b"", true),
        ("a+", b"", false),
        ("^$", b"", true),
        ("^$", b"\n", false),
        (r#"["]"#, b"x\"y", true),
        (r#"[a"]+$"#, b"\"a\"", true),
        (r"\x00", b"a\x00", true),
        ("a.c", b"a\xffc", true),
        ("a.c", b"a\xc3\xa9c", false),
        ("(?-u:\\xff)", b"\xff", true),
    ];
    for (p, v, want) in t {
        for spelling in 0..2 {
            let lit = if spelling == 0 {
                match escape_for_quoted(p) {
                    Some(q) => format!("\"{q}\""),
                    None => continue,
                }
            } else {
                raw_literal(p)
            };
            let in_model = !p.contains("(?");
            let op = format!("rxm targeted {} {} {}", hex(lit.as_bytes()), hex(v), if in_model { "m" } else { "s" });
            match compile_lit(s, &lit) {
                Ok((f, seen)) => {
                    let a = exec(s, &f, v);
                    out.case(&op, &a, Some(&op), &["rx.targeted", if in_model { "rxm.model_answers" } else { "rxm.model_may_skip" }]);
                    if seen != *p {
                        out.impl_failure(&op, &format!("AST JSON pattern {seen:?} differs from written {p:?}"));
                    }
                    if a != want.to_string() {
                        out.impl_failure(&op, &format!("b matches {lit} on {}: engine {a}, documented semantics {want}", hex(v)));
                    }
                }
                Err(k) => {
                    out.case(&op, "err", None, &["rx.targeted"]);
                    out.impl_failure(&op, &format!("targeted pattern rejected: {k}"));
                }
            }
        }
    }
    // invalid regexes are rejected at parse time
    for p in ["(", "a)", "[a", "a{2,1}", "*a", r"\p{Greek}", "(?u:\\xff)", r"\z{", "a**{"] {
        let lit = raw_literal(p);
        let op = format!("rxm invalid {}", hex(lit.as_bytes()));
        let r = compile_lit(s, &lit);
        out.case(&op, if r.is_ok() { "ok" } else { "err" }, None, &["rx.invalid"]);
        // `\p{Greek}` needs Unicode tables; `(?u:\xff)` would match a non-UTF-8 ... both are
        // documented as errors for byte-oriented regexes without Unicode; `*a` is accepted by
        // no regex-syntax version we know of
        if r.is_ok() && !matches!(p, r"\p{Greek}" | "(?u:\\xff)") {
            out.impl_failure(&op, &format!("invalid regex {p:?} was accepted"));
        }
    }
}

/// Hand-written corner patterns of the model's subset (spellings the generator does not
/// write) x fixed values; the only oracle here is the proved Lean matcher (`m`: the driver
/// must answer). Patterns the model places outside its subset are sent with `s`.
fn corners(s: &Scheme, out: &mut Out) {
    let inside: &[&str] = &[
        "^*a", "()", "()*a", "(|a)b", "a||b", "]", "}", "a]b}", r"\t\r\f\v\a", r"a\ b\_\%", r"[\xe9]", "$*", "$a", "a^b", "(^)*a", "(a$)*", "(^|a)+b", "(a|$)+",
        "x*", "|", "(|)", "a|", r"[\]]", r"[\^a]", r"\-", r"\#\&\~\'\`\,\=\@\!\:\;\/", r"[\n]", r"[\t-\r]", r"\xFf", "é*", "€+x", "(é|ß)+$",
        "[a-zA-Z]", r"[\x00-\x7f]", r"[\W]", r"[^\W]", r"[^\d\s]", "(?:)", "(?:)*", r"\\", "(a*)*b", "(a|ab)(c|bcd)(d*)", "(a+|b+)*c", "^(a|b)*$", ".*", "^.*$", "a.*b$", r"[^\n]*\n",
    ];
    let outside: &[&str] = &[
        r"\<", r"\>", "[a-]", "[-a]", "[]a]", "[a^]", "[a&]", "[a~b]", "[a-b-c]", "[[a]]", "[[:alpha:]]", "a**", "a*?", "a+*", "(?P<n>a)", "(?<n>a)", "a{2}", r"\x{41}", r"\z", r"\A", r"\b", "[^^]",
        "[^-a]", "(?i:a)", "(?-u:a)", "(?m)^a$", "a{1,2}?", r"\Ba",
    ];
    let vals: &[&[u8]] = &[
        b"", b"a", b"b", b"ba", b"ab", b"aab", b"abcd", b"abbcd", b"]", b"}", b"a]b}", b"\t\r\x0c\x0b\x07", b"a b_%", b"\xc3\xa9\xc3\xa9", b"\xc3\x9f\xc3\xa9", b"\xe2\x82\xac\xe2\x82\xacx", b"-", b"^", b"\\",
        b"\xe9", b"#&~'`,=@!:;/", b"\n", b"a\n", b"a\nb", b"Z9_ ", b"\xff", b"aaac", b"abab", b"xa",
    ];
    for (list, flag) in [(inside, "m"), (outside, "s")] {
        for p in list {
            match compile_lit(s, &raw_literal(p)) {
                Ok((f, seen)) => {
                    if seen != *p {
                        out.impl_failure(&format!("rxm match {}", hex(p.as_bytes())), &format!("AST JSON pattern {seen:?} differs from written {p:?}"));
                    }
                    for v in vals {
                        let a = exec(s, &f, v);
                        let op = format!("rxm match {} {} {flag}", hex(p.as_bytes()), hex(v));
                        out.case(&op, &a, Some(&op), &["rx.corner", if flag == "m" { "rxm.model_answers" } else { "rxm.model_may_skip" }]);
                    }
                }
                Err(k) => {
                    let op = format!("rxm rejected {}", hex(p.as_bytes()));
                    out.case(&op, "err", None, &["rx.corner.rejected"]);
                    out.impl_failure(&op, &format!("corner pattern {p:?} rejected: {k}"));
                }
            }
        }
    }
}

fn size_limits(s: &Scheme, out: &mut Out) {
    let big = ["(a|b|c|d){300}x{200}", r"\w{500}", "[a-z]{2000}", ".{4079,65535}"];
    for p in big {
        for quoted in [false, true] {
            let lit = if quoted { format!("\"{p}\"") } else { raw_literal(p) };
            let text = format!("b matches {lit}");
            for (limit, want_ok) in [(2000usize, false), (0, false), (10 * (1 << 20), true)] {
                let r = catch_unwind(AssertUnwindSafe(|| {
                    let mut parser = s.parser();
                    parser.regex_set_compiled_size_limit(limit);
                    parser.parse(&text).map(|_| ()).map_err(|e| error_kind_text(&e))
                }));
                let ans = match &r {
                    Ok(Ok(())) => "ok".to_string(),
                    Ok(Err(k)) if k.contains("Compiled regex exceeds size limit") => "err.size".to_string(),
                    Ok(Err(_)) => "err.other".to_string(),
                    Err(_) => "panic".to_string(),
                };
                let op = format!("rxm size {limit} {}", hex(lit.as_bytes()));
                out.case(&op, &ans, Some(&op), &["rx.size"]);
                if want_ok != (ans == "ok") || (!want_ok && ans != "err.size") {
                    out.impl_failure(&op, &format!("compiled size limit {limit}: {ans}, expected {}", if want_ok { "ok" } else { "err.size" }));
                }
            }
        }
    }
    // a small pattern is fine under a modest limit
    let mut parser = s.parser();
    parser.regex_set_compiled_size_limit(64 * 1024);
    if parser.parse("b matches \"ab+c\"").is_err() {
        out.impl_failure("rxm size 65536 ab+c", "small pattern rejected under a 64 KiB limit");
    }
}

const SCAN_ALPHABET: [u8; 6] = [b'a', b'\\', b'"', b'[', b']', b'-'];

pub fn run(cfg: Cfg, out: &mut Out) {
    let s = scheme();
    let quick = cfg.quick();
    let mut rng = cfg.rng();
    // A. exhaustive scanner sources
    let n = if quick { 6 } else { 8 };
    let bodies = super::wild::all_up_to(&SCAN_ALPHABET, n);
    let rests = ["", " or b == \"w\"", " or b == \"w\" or b == \"zz\""];
    let mut idx = 0u64;
    for body in &bodies {
        idx += 1;
        if !cfg.mine(idx) {
            continue;
        }
        let body = std::str::from_utf8(body).unwrap();
        let rest = rests[(idx as usize / 7) % 3];
        for after in [format!("{body}\"{rest}"), body.to_string()] {
            let (mode, ans) = scan_case(&s, &after);
            let op = format!("rxscan {} {mode}", hex(after.as_bytes()));
            let tag = match mode {
                'p' if ans == "err" => "scan.missing_quote",
                'p' => "scan.parsed",
                'e' => "scan.regex_error",
                'r' => "scan.trailing_input",
                _ => "scan.other_error",
            };
            let nontrivial = body.contains('\\') || body.contains('[') || body.contains('"');
            out.case(&op, &ans, if nontrivial { Some(&op) } else { None }, &["rx.scan.exhaustive", tag]);
        }
    }
    out.notes.push(format!("rx scanner: all {} sources over {{a,\\,\",[,],-}} up to length {n}, each with and without closing quote (+ rest)", bodies.len()));
    // non-ASCII and longer hand-written sources
    if cfg.mine(0) {
        for after in [
            "é\\\"[é\"]\"",
            "[a-z\"\\]]+\\d{1,10}\\\"\";",
            "[a-z\"\\]]+\\d{1,10}\\\"\"",
            "abcd\\",
            "[]\"]\"",
            "[^]\"]\"",
            "\\[\"]\"",
            "[\\]\"]\"",
            "a\\\\\"",
            "a\\\\\\\"\"",
            "[[]\"]\"",
            "x\" or b == \"y\"",
        ] {
            let (mode, ans) = scan_case(&s, after);
            let op = format!("rxscan {} {mode}", hex(after.as_bytes()));
            out.case(&op, &ans, Some(&op), &["rx.scan.handwritten"]);
        }
        targeted(&s, out);
        corners(&s, out);
        size_limits(&s, out);
    }
    // B. generated subset
    let n_sub = cfg.share(if quick { 3000 } else { 200_000 });
    for _ in 0..n_sub {
        subset_case(&s, out, &mut rng);
    }
    {
        let m = out.hist.get("rxm.model_answers").copied().unwrap_or(0);
        let k = out.hist.get("rxm.model_may_skip").copied().unwrap_or(0);
        if m + k > 0 && cfg.mine(0) {
            out.notes.push(format!("(shard 0) rxm match/lit/targeted lines answered by the proved Lean matcher (pattern inside the model subset, enforced: the driver answers `nosubset`, not `skip`, on them): {m} of {} = {:.1}%", m + k, 100.0 * m as f64 / (m + k) as f64));
        }
    }
    out.notes.push("rx subset: literals (escaped, unescaped punctuation, non-ASCII characters), \\xHH, ., classes (negated, ranges, quotes/brackets inside), \\d\\w\\s\\D\\W\\S, ? * +, alternation, groups, ^ $, (?i), (?s); each in quoted and raw spelling x ~22 values; compared with a backtracking reference matcher".to_string());
}

fn unhex(s: &str) -> Option<Vec<u8>> {
    if s == "-" {
        return Some(vec![]);
    }
    if s.len() % 2 != 0 {
        return None;
    }
    (0..s.len() / 2).map(|i| u8::from_str_radix(&s[2 * i..2 * i + 2], 16).ok()).collect()
}

pub fn replay(op: &str) -> Option<String> {
    let w: Vec<&str> = op.split(' ').collect();
    let s = scheme();
    match w.as_slice() {
        ["rxscan", after, _mode] => {
            let after = String::from_utf8(unhex(after)?).ok()?;
            Some(scan_case(&s, &after).1)
        }
        ["rxm", "match", p, v] | ["rxm", "match", p, v, _] => {
            let p = String::from_utf8(unhex(p)?).ok()?;
            let v = unhex(v)?;
            match compile_lit(&s, &raw_literal(&p)) {
                Ok((f, _)) => Some(exec(&s, &f, &v)),
                Err(_) => Some("err".to_string()),
            }
        }
        ["rxm", "targeted", lit, v] | ["rxm", "targeted", lit, v, _] | ["rxm", "lit", lit, v] | ["rxm", "lit", lit, v, _] => {
            let lit = String::from_utf8(unhex(lit)?).ok()?;
            let v = unhex(v)?;
            match compile_lit(&s, &lit) {
                Ok((f, _)) => Some(exec(&s, &f, &v)),
                Err(_) => Some("err".to_string()),
            }
        }
        _ => None,
    }
}
