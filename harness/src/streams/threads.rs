//! Stream `threads` (C18): compiled filters shared between threads.
//!  * the sequential baseline of every (filter, context) pair is emitted as ordinary `exec`
//!    lines (so it is tied to the model);
//!  * T threads released by a barrier execute random programs of (filter, context) jobs on
//!    SHARED compiled filters and shared or per-thread contexts, repeatedly; every thread's
//!    result vector must equal the baseline (`oracle threads …` lines);
//!  * recompiling a filter inside the threads must not change its results;
//!  * first use of lazily initialised global state (the AVX2 latch, regex caches) is raced in
//!    fresh child processes.
use crate::Cfg;
use crate::core;
use crate::coreops::Core;
use crate::fgen::{self, G};
use crate::out::{Out, hex};
use std::sync::{Arc, Barrier};
use wirefilter::{ExecutionContext, Filter};

fn heavy_filters(rng: &mut crate::rng::Rng, spec: &core::SchemeSpec, n: usize) -> Vec<String> {
    let mut v: Vec<String> = vec![
        "y contains \"ab\"".into(),
        "http.host contains \"abcdefghijklmnopqrstuvwxyz0123456789\"".into(),
        "any(ay[*] contains \"b\")".into(),
        "y matches \"a.c\" or http.host matches \"x\"".into(),
        "y wildcard \"*a*b*\" or y strict wildcard \"A*\"".into(),
        "i in $l1 or p in $a.b or y in $x_9".into(),
        "any(lower(ay[*])[*] == \"ab\") or len(y) > 1".into(),
        "all(mami[*][*][*] >= 0) xor any(aai[*][*] in {1..5})".into(),
        "concat(y, http.host) contains \"ab\" and ctxfn(y, \"z\") == 2".into(),
        "y matches \"a\"".into(),
        "http.host matches \"^ab\" and y matches \"c$\"".into(),
        "y wildcard \"a*\"".into(),
        "y strict wildcard \"*c\"".into(),
        "http.host contains \"bc\"".into(),
        "y in {\"abc\" \"ab\"}".into(),
        "lower(y) == \"abc\" and len(http.host) == 3".into(),
        "lower(http.host) contains \"bc\"".into(),
        // chains of >= 3 operands that DIFFERENT contexts satisfy through DIFFERENT operands
        // (anything adaptive inside a compiled chain — operand reordering, a remembered
        // "hot" operand — is steered in opposite directions by concurrent executions)
        "y == \"zzz\" or y == \"abc\" or y == \"xyz\" or http.host == \"q\"".into(),
        "i == 123456 or http.host == \"xyz\" or y == \"abc\" or b".into(),
        "y != \"abc\" and http.host != \"zzz\" and y != \"q\" and len(y) == 3".into(),
        "y == \"abc\" xor http.host == \"xyz\" xor y == \"q\"".into(),
        "(y == \"q\" or y == \"xyz\" or y == \"abc\") and (http.host == \"q\" or http.host == \"abc\" or http.host == \"xyz\")".into(),
    ];
    // large literal sets (anything built lazily from them takes long enough to be raced)
    let mut big_bytes = String::from("y in {");
    let mut big_ints = String::from("i in {");
    let mut big_ips = String::from("p in {");
    for k in 0..400u32 {
        big_bytes.push_str(&format!("\"w{k:04}\" "));
        big_ints.push_str(&format!("{}..{} ", 1000 + 10 * k, 1004 + 10 * k));
        big_ips.push_str(&format!("10.{}.{}.0/24 ", k / 200, k % 200));
    }
    big_bytes.push_str("\"abc\" \"ab\"}");
    big_ints.push_str("1 2 3}");
    big_ips.push_str("10.0.0.1}");
    v.push(big_bytes);
    v.push(big_ints);
    v.push(big_ips);
    for _ in 0..n {
        let depth = *rng.pick(&[2u32, 3, 4]);
        let mut g = G::new(rng, spec);
        g.allow_regex = true;
        v.push(g.expr(false, depth));
    }
    v
}

pub fn run(cfg: Cfg, out: &mut Out) {
    core::silence_panics();
    let mut rng = cfg.rng();
    let mut core = Core::new();
    let rounds = if cfg.quick() { 2 } else { 8 };
    for round in 0..rounds {
        let spec = fgen::rich_scheme(&mut rng, 128);
        let line = spec.op_line();
        let a = core.apply(&line).unwrap();
        out.case(&line, &a, None, &["scheme"]);
        let texts: Vec<String> = heavy_filters(&mut rng, &spec, if cfg.quick() { 40 } else { 120 })
            .into_iter()
            .filter(|t| spec.parser(&core.scheme).parse(t).is_ok())
            .collect();
        let mut ctx_specs: Vec<_> = (0..6).map(|_| fgen::gen_ctx(&mut rng, &spec)).collect();
        // two contexts on which the fixed operator filters are sure to answer differently
        for (fi, f) in spec.fields.iter().enumerate() {
            if f.name == "y" || f.name == "http.host" {
                ctx_specs[0].values[fi] = Some(wirefilter::LhsValue::Bytes(b"abc".to_vec().into()));
                ctx_specs[1].values[fi] = Some(wirefilter::LhsValue::Bytes(b"xyz".to_vec().into()));
            }
        }
        // sequential baseline through the core executor (tied to the model)
        let mut base: Vec<Vec<String>> = vec![vec![String::new(); ctx_specs.len()]; texts.len()];
        for (ci, c) in ctx_specs.iter().enumerate() {
            let cl = c.op_line();
            let a = core.apply(&cl).unwrap();
            out.case(&cl, &a, None, &["ctx"]);
            for (fi, t) in texts.iter().enumerate() {
                let op = format!("exec {}", hex(t.as_bytes()));
                let ans = core.apply(&op).unwrap();
                base[fi][ci] = ans.clone();
                out.case(&op, &ans, None, &["baseline"]);
            }
        }
        // shared compiled filters and contexts
        let scheme = core.scheme.clone();
        let filters: Arc<Vec<Filter>> = Arc::new(
            texts.iter().map(|t| spec.parser(&scheme).parse(t).unwrap().compile()).collect(),
        );
        let ctxs: Arc<Vec<ExecutionContext<'static>>> =
            Arc::new(ctx_specs.iter().map(|c| c.build(&spec, &scheme)).collect());
        let base = Arc::new(base);
        let tcs: &[usize] = if cfg.quick() { &[4, 16] } else { &[2, 4, 16, 64] };
        for &t in tcs {
            let reps = if cfg.quick() { 3 } else { 12 };
            for rep in 0..reps {
                let barrier = Arc::new(Barrier::new(t));
                let mut hs = Vec::new();
                for th in 0..t {
                    let (filters, ctxs, base, barrier) = (filters.clone(), ctxs.clone(), base.clone(), barrier.clone());
                    let texts = texts.clone();
                    let spec = spec.clone();
                    let scheme = scheme.clone();
                    let mut trng = crate::rng::Rng::new(cfg.seed ^ ((round as u64) << 32) ^ ((rep as u64) << 16) ^ th as u64);
                    let per_thread_ctx = th % 2 == 1;
                    hs.push(std::thread::spawn(move || -> Option<String> {
                        // per-thread contexts are clones built before the barrier
                        let own: Vec<ExecutionContext<'static>> =
                            if per_thread_ctx { ctxs.iter().map(|c| c.clone_with(())).collect() } else { Vec::new() };
                        barrier.wait();
                        for k in 0..400 {
                            let fi = trng.below(filters.len() as u64) as usize;
                            let ci = trng.below(ctxs.len() as u64) as usize;
                            let c = if per_thread_ctx { &own[ci] } else { &ctxs[ci] };
                            let got = core::no_panic(|| match filters[fi].execute(c) {
                                Ok(b) => b.to_string(),
                                Err(_) => "exec-err".to_string(),
                            })
                            .unwrap_or_else(|| "panic".into());
                            if got != base[fi][ci] {
                                return Some(format!("thread {th} job {k}: filter {:?} on context {ci} gave {got}, sequential result is {}", texts[fi], base[fi][ci]));
                            }
                            // recompilation inside the thread
                            if k % 50 == 0 {
                                let again = spec.parser(&scheme).parse(&texts[fi]).unwrap().compile();
                                let got2 = match again.execute(c) {
                                    Ok(b) => b.to_string(),
                                    Err(_) => "exec-err".to_string(),
                                };
                                if got2 != base[fi][ci] {
                                    return Some(format!("thread {th}: recompiled filter {:?} gave {got2}, expected {}", texts[fi], base[fi][ci]));
                                }
                            }
                        }
                        None
                    }));
                }
                let mut bad = None;
                for h in hs {
                    match h.join() {
                        Ok(None) => {}
                        Ok(Some(b)) => bad = Some(b),
                        Err(_) => bad = Some("a worker thread panicked".to_string()),
                    }
                }
                let op = format!("oracle threads T={t} round={round} rep={rep} filters={} ctxs={}", texts.len(), ctx_specs.len());
                let ans = match &bad {
                    None => "ok".to_string(),
                    Some(b) => {
                        out.impl_failure(&op, b);
                        "mismatch".to_string()
                    }
                };
                out.case(&op, &ans, Some(&op), &["threads", if t >= 16 { "threads.T>=16" } else { "threads.T<16" }]);
            }
        }
        // first-use phase: filters compiled just now and never executed are shared, and all
        // threads execute each of them FOR THE FIRST TIME at the same moment (a barrier per
        // filter): anything a compiled filter initialises lazily is initialised under a race
        for rep in 0..(if cfg.quick() { 4 } else { 24 }) {
            let t = 16usize;
            let fresh: Arc<Vec<Filter>> =
                Arc::new(texts.iter().map(|x| spec.parser(&scheme).parse(x).unwrap().compile()).collect());
            let barrier = Arc::new(Barrier::new(t));
            let mut hs = Vec::new();
            for th in 0..t {
                let (fresh, ctxs, base, barrier, texts) = (fresh.clone(), ctxs.clone(), base.clone(), barrier.clone(), texts.clone());
                hs.push(std::thread::spawn(move || -> Option<String> {
                    let mut bad = None;
                    for fi in 0..fresh.len() {
                        barrier.wait();
                        for round2 in 0..2 {
                            let ci = (th + rep + round2) % ctxs.len();
                            let got = match core::no_panic(|| fresh[fi].execute(&ctxs[ci])) {
                                Some(Ok(true)) => "true",
                                Some(Ok(false)) => "false",
                                Some(Err(_)) => "exec-err",
                                None => "panic",
                            };
                            if got != base[fi][ci] && bad.is_none() {
                                bad = Some(format!("thread {th}: first use of freshly compiled {:?} on context {ci} gave {got}, sequential result is {}", texts[fi], base[fi][ci]));
                            }
                        }
                    }
                    bad
                }));
            }
            let mut bad = None;
            for h in hs {
                match h.join() {
                    Ok(None) => {}
                    Ok(Some(b)) => bad = Some(b),
                    Err(_) => bad = Some("a worker thread panicked".to_string()),
                }
            }
            let op = format!("oracle threads-fresh T={t} round={round} rep={rep} filters={}", texts.len());
            let ans = match &bad {
                None => "ok".to_string(),
                Some(b) => {
                    out.impl_failure(&op, b);
                    "mismatch".to_string()
                }
            };
            out.case(&op, &ans, Some(&op), &["threads.fresh"]);
        }
        // contention phase: ALL threads hammer ONE shared compiled filter at a time, each thread
        // cycling through the contexts from its own offset, so that executions of the same
        // filter object with different answers overlap as often as the scheduler allows. State
        // hidden inside a compiled filter (memo cells, scratch buffers, caches keyed by input)
        // is only ever exposed by this kind of overlap.
        let mut hot: Vec<usize> = (0..texts.len()).filter(|&fi| base[fi].iter().any(|a| *a != base[fi][0])).collect();
        // the fixed operator filters first, then generated ones
        hot.truncate(if cfg.quick() { 28 } else { 60 });
        let t = 16usize;
        let iters = if cfg.quick() { 20_000usize } else { 120_000 };
        for fi in hot {
            let barrier = Arc::new(Barrier::new(t));
            let mut hs = Vec::new();
            for th in 0..t {
                let (filters, ctxs, base, barrier) = (filters.clone(), ctxs.clone(), base.clone(), barrier.clone());
                hs.push(std::thread::spawn(move || -> Option<String> {
                    let own: Vec<ExecutionContext<'static>> = ctxs.iter().map(|c| c.clone_with(())).collect();
                    barrier.wait();
                    let n = own.len();
                    for k in 0..iters {
                        let ci = (k + th) % n;
                        let c = if th % 4 == 0 { &ctxs[ci] } else { &own[ci] };
                        let got = match filters[fi].execute(c) {
                            Ok(true) => "true",
                            Ok(false) => "false",
                            Err(_) => "exec-err",
                        };
                        if got != base[fi][ci] {
                            return Some(format!("thread {th} iteration {k}: context {ci} gave {got}, sequential result is {}", base[fi][ci]));
                        }
                    }
                    None
                }));
            }
            let mut bad = None;
            for h in hs {
                match h.join() {
                    Ok(None) => {}
                    Ok(Some(b)) => bad = Some(b),
                    Err(_) => bad = Some("a worker thread panicked".to_string()),
                }
            }
            let op = format!("oracle threads-hot T={t} round={round} iters={iters} filter={}", hex(texts[fi].as_bytes()));
            let ans = match &bad {
                None => "ok".to_string(),
                Some(b) => {
                    out.impl_failure(&op, &format!("filter {:?}: {b}", texts[fi]));
                    "mismatch".to_string()
                }
            };
            out.case(&op, &ans, Some(&op), &["threads.hot"]);
        }
    }
    // first use of lazily initialised state raced in fresh processes
    if cfg.shard == 0 || !cfg.quick() {
        let n = if cfg.quick() { 12 } else { 60 };
        for k in 0..n {
            let op = format!("oracle threads-firstuse #{}-{k}", cfg.shard);
            let exe = std::fs::read_link("/proc/self/exe").unwrap_or_else(|_| std::env::current_exe().unwrap());
            let mut cmd = std::process::Command::new(exe);
            cmd.args(["replay", "threads-child", &format!("{}", cfg.seed + k)]);
            if k % 3 == 2 {
                cmd.env("WIREFILTER_USE_AVX2", "0");
            }
            let ans = match cmd.output() {
                Ok(o) if o.status.success() => String::from_utf8_lossy(&o.stdout).lines().next().unwrap_or("").to_string(),
                Ok(o) => format!("child died: {:?}", o.status),
                Err(e) => format!("spawn failed: {e}"),
            };
            if ans != "ok" {
                out.impl_failure(&op, &ans);
            }
            out.case(&op, &ans.replace(' ', "_"), Some(&op), &["firstuse"]);
        }
    }
}

/// fresh process: 16 threads compile and execute the same filters as their very first engine
/// use; afterwards the same is done on one thread and must agree
pub fn child(arg: &str) -> Option<String> {
    let seed: u64 = arg.trim().parse().ok()?;
    core::silence_panics();
    let mut rng = crate::rng::Rng::new(seed);
    let spec = fgen::rich_scheme(&mut rng, 128);
    let scheme = spec.build();
    let texts: Vec<String> = heavy_filters(&mut rng, &spec, 10)
        .into_iter()
        .filter(|t| spec.parser(&scheme).parse(t).is_ok())
        .collect();
    let ctx = Arc::new(fgen::gen_ctx(&mut rng, &spec).build(&spec, &scheme));
    let barrier = Arc::new(Barrier::new(16));
    let mut hs = Vec::new();
    for _ in 0..16 {
        let (spec, scheme, texts, ctx, barrier) = (spec.clone(), scheme.clone(), texts.clone(), ctx.clone(), barrier.clone());
        hs.push(std::thread::spawn(move || -> Vec<String> {
            barrier.wait();
            texts
                .iter()
                .map(|t| match spec.parser(&scheme).parse(t).unwrap().compile().execute(&ctx) {
                    Ok(b) => b.to_string(),
                    Err(_) => "exec-err".into(),
                })
                .collect()
        }));
    }
    let results: Vec<Vec<String>> = hs.into_iter().map(|h| h.join().unwrap_or_default()).collect();
    let seq: Vec<String> = texts
        .iter()
        .map(|t| match spec.parser(&scheme).parse(t).unwrap().compile().execute(&ctx) {
            Ok(b) => b.to_string(),
            Err(_) => "exec-err".into(),
        })
        .collect();
    for (i, r) in results.iter().enumerate() {
        if *r != seq {
            println!("thread {i} disagrees with the sequential run on first use: {r:?} vs {seq:?}");
            return Some("child-done".into());
        }
    }
    println!("ok");
    Some("child-done".into())
}
