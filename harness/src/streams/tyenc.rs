//! C15 — type and scheme encodings on the REAL implementation:
//! `Type` <-> `CompoundType` <-> `wirefilter_ffi::CType` <-> JSON (serde_json `to_string` /
//! `from_str` / `from_slice` / `from_reader` / `Value`), `Scheme` <-> JSON.
//!
//! op lines (`<T>` = type code of codec.rs, `<entry>` = str|slice|reader|value,
//! `<fields>` = `.` or `hexname:T:0|1,...`); every op is self-contained, so `replay`
//! re-runs exactly what `run` ran:
//!   tyenc pack <T>                     -> ok <layers> <len> <Prim> <T back> | refused
//!   tyenc cpack <T>                    -> ok <layers> <len> <code> <T back|refused> | refused
//!   tyenc cunpack <layers> <len> <code>-> ok <T> | refused
//!   tyenc json <T>                     -> ok <hex JSON text>
//!   tyenc tyde <entry> <hex JSON>      -> ok <T> | err | panic       (as `Type`)
//!   tyenc ctde <entry> <hex JSON>      -> ok <layers> <len> <Prim> | err | panic (as `CompoundType`)
//!   tyenc sch <entry> <fields>         -> dup | <hex JSON> ok <fields> | <hex JSON> err|panic
//!   tyenc schdoc <entry> <hex JSON>    -> ok <fields> | err | panic
//!
//! `CompoundType`'s fields are private: they are read from its derived `Debug` output;
//! `CType` is `#[repr(C)]` with public fields.  `refused` = the documented refusal of a
//! programmatic conversion (panic in `CompoundType::from_type`, `unwrap` on an unknown C
//! primitive code).  A panic while *deserializing* is reported as `panic`.
use crate::Cfg;
use crate::codec::{parse_ty, ty_str, unhex};
use crate::out::{Out, hex};
use crate::rng::Rng;
use serde_json::Value;
use std::io::Read;
use std::panic::{AssertUnwindSafe, catch_unwind};
use wirefilter::{CompoundType, GetType, Scheme, SchemeBuilder, Type};
use wirefilter_ffi::{
    CPrimitiveType, CType, wirefilter_create_array_type, wirefilter_create_map_type,
    wirefilter_create_primitive_type,
};

const ENTRIES: [&str; 4] = ["str", "slice", "reader", "value"];
const PRIMS: [char; 4] = ['B', 'I', 'P', 'Y'];

fn quiet_panics() {
    std::panic::set_hook(Box::new(|_| {}));
}

/// a reader that hands out at most 3 bytes per call (so nothing can be borrowed from it)
struct Dribble<'a>(&'a [u8]);

impl Read for Dribble<'_> {
    fn read(&mut self, buf: &mut [u8]) -> std::io::Result<usize> {
        let n = self.0.len().min(buf.len()).min(3);
        buf[..n].copy_from_slice(&self.0[..n]);
        self.0 = &self.0[n..];
        Ok(n)
    }
}

/// `serde_json::Value` of a text.  Texts nested deeper than serde_json's own recursion limit
/// are peeled (`{"Array":`…`}` / `{"Map":`…`}`) and re-wrapped, so that a value tree of any
/// depth can be handed to `from_value`.
fn value_of_text(text: &str) -> Option<Value> {
    if let Ok(v) = serde_json::from_str::<Value>(text) {
        return Some(v);
    }
    let mut core = text;
    let mut wraps: Vec<&str> = Vec::new();
    loop {
        let (k, rest) = if let Some(r) = core.strip_prefix("{\"Array\":") {
            ("Array", r)
        } else if let Some(r) = core.strip_prefix("{\"Map\":") {
            ("Map", r)
        } else {
            break;
        };
        let Some(inner) = rest.strip_suffix('}') else { break };
        wraps.push(k);
        core = inner;
        if let Ok(mut v) = serde_json::from_str::<Value>(core) {
            for k in wraps.iter().rev() {
                let mut m = serde_json::Map::new();
                m.insert((*k).to_string(), v);
                v = Value::Object(m);
            }
            return Some(v);
        }
    }
    None
}

enum De<T> {
    Ok(T),
    Err,
    Panic,
}

fn de_type(entry: &str, bytes: &[u8]) -> De<Type> {
    let r = catch_unwind(AssertUnwindSafe(|| -> Result<Type, ()> {
        match entry {
            "str" => serde_json::from_str::<Type>(std::str::from_utf8(bytes).map_err(|_| ())?).map_err(|_| ()),
            "slice" => serde_json::from_slice::<Type>(bytes).map_err(|_| ()),
            "reader" => serde_json::from_reader::<_, Type>(Dribble(bytes)).map_err(|_| ()),
            _ => {
                let v = value_of_text(std::str::from_utf8(bytes).map_err(|_| ())?).ok_or(())?;
                serde_json::from_value::<Type>(v).map_err(|_| ())
            }
        }
    }));
    match r {
        Ok(Ok(t)) => De::Ok(t),
        Ok(Err(())) => De::Err,
        Err(_) => De::Panic,
    }
}

fn de_compound(entry: &str, bytes: &[u8]) -> De<CompoundType> {
    let r = catch_unwind(AssertUnwindSafe(|| -> Result<CompoundType, ()> {
        match entry {
            "str" => serde_json::from_str::<CompoundType>(std::str::from_utf8(bytes).map_err(|_| ())?).map_err(|_| ()),
            "slice" => serde_json::from_slice::<CompoundType>(bytes).map_err(|_| ()),
            "reader" => serde_json::from_reader::<_, CompoundType>(Dribble(bytes)).map_err(|_| ()),
            _ => {
                let v = value_of_text(std::str::from_utf8(bytes).map_err(|_| ())?).ok_or(())?;
                serde_json::from_value::<CompoundType>(v).map_err(|_| ())
            }
        }
    }));
    match r {
        Ok(Ok(t)) => De::Ok(t),
        Ok(Err(())) => De::Err,
        Err(_) => De::Panic,
    }
}

fn de_scheme(entry: &str, bytes: &[u8]) -> De<Scheme> {
    let r = catch_unwind(AssertUnwindSafe(|| -> Result<Scheme, ()> {
        match entry {
            "str" => serde_json::from_str::<Scheme>(std::str::from_utf8(bytes).map_err(|_| ())?).map_err(|_| ()),
            "slice" => serde_json::from_slice::<Scheme>(bytes).map_err(|_| ()),
            "reader" => serde_json::from_reader::<_, Scheme>(Dribble(bytes)).map_err(|_| ()),
            _ => {
                let v = value_of_text(std::str::from_utf8(bytes).map_err(|_| ())?).ok_or(())?;
                serde_json::from_value::<Scheme>(v).map_err(|_| ())
            }
        }
    }));
    match r {
        Ok(Ok(t)) => De::Ok(t),
        Ok(Err(())) => De::Err,
        Err(_) => De::Panic,
    }
}

/// `CompoundType { layers: 2, len: 2, primitive: Int }` -> `2 2 Int`
fn compound_fields(ct: &CompoundType) -> String {
    let d = format!("{ct:?}");
    let get = |key: &str| -> String {
        match d.find(key) {
            Some(i) => d[i + key.len()..]
                .chars()
                .take_while(|c| c.is_ascii_alphanumeric())
                .collect(),
            None => "?".to_string(),
        }
    };
    format!("{} {} {}", get("layers: "), get("len: "), get("primitive: "))
}

fn scheme_fields(s: &Scheme) -> String {
    let fs: Vec<String> = s
        .fields()
        .map(|f| {
            format!(
                "{}:{}:{}",
                hex(f.name().as_bytes()),
                ty_str(&f.get_type()),
                if f.optional() { 1 } else { 0 }
            )
        })
        .collect();
    if fs.is_empty() { ".".to_string() } else { fs.join(",") }
}

fn scheme_answer(r: De<Scheme>) -> String {
    match r {
        De::Ok(s) => format!("ok {}", scheme_fields(&s)),
        De::Err => "err".to_string(),
        De::Panic => "panic".to_string(),
    }
}

fn c_of_type_via_api(t: &Type) -> CType {
    match t {
        Type::Bool => wirefilter_create_primitive_type(CPrimitiveType::Bool),
        Type::Int => wirefilter_create_primitive_type(CPrimitiveType::Int),
        Type::Ip => wirefilter_create_primitive_type(CPrimitiveType::Ip),
        Type::Bytes => wirefilter_create_primitive_type(CPrimitiveType::Bytes),
        Type::Array(inner) => wirefilter_create_array_type(c_of_type_via_api(&Type::from(*inner))),
        Type::Map(inner) => wirefilter_create_map_type(c_of_type_via_api(&Type::from(*inner))),
    }
}

/// Runs one op on the implementation.
fn answer(op: &str) -> Option<String> {
    let w: Vec<&str> = op.split(' ').collect();
    match w.as_slice() {
        ["tyenc", "pack", t] => {
            let t = parse_ty(t)?;
            let r = catch_unwind(AssertUnwindSafe(|| {
                let ct = CompoundType::from(t);
                let again = CompoundType::from_type(t);
                let back = Type::from(ct);
                let back2 = ct.into_type();
                (ct, again, back, back2)
            }));
            Some(match r {
                Ok((ct, again, back, back2)) => {
                    let mut s = format!("ok {} {}", compound_fields(&ct), ty_str(&back));
                    if again != ct || back2 != back {
                        s.push_str(" INCONSISTENT-from/from_type/into_type");
                    }
                    s
                }
                Err(_) => "refused".to_string(),
            })
        }
        ["tyenc", "cpack", t] => {
            let t = parse_ty(t)?;
            let r = catch_unwind(AssertUnwindSafe(|| (CType::from(t), c_of_type_via_api(&t))));
            Some(match r {
                Ok((c, api)) => {
                    let back = match catch_unwind(AssertUnwindSafe(|| Type::from(c))) {
                        Ok(u) => ty_str(&u),
                        Err(_) => "refused".to_string(),
                    };
                    let mut s = format!("ok {} {} {} {}", c.layers, c.len, c.primitive, back);
                    if api != c {
                        s.push_str(&format!(" API-DIFFERS {} {} {}", api.layers, api.len, api.primitive));
                    }
                    s
                }
                Err(_) => "refused".to_string(),
            })
        }
        ["tyenc", "cunpack", l, n, c] => {
            let c = CType { layers: l.parse().ok()?, len: n.parse().ok()?, primitive: c.parse().ok()? };
            Some(match catch_unwind(AssertUnwindSafe(|| Type::from(c))) {
                Ok(u) => format!("ok {}", ty_str(&u)),
                Err(_) => "refused".to_string(),
            })
        }
        ["tyenc", "json", t] => {
            let t = parse_ty(t)?;
            let text = serde_json::to_string(&t).ok()?;
            let mut s = format!("ok {}", hex(text.as_bytes()));
            let vec = serde_json::to_vec(&t).ok()?;
            let val = serde_json::to_value(t).ok()?.to_string();
            if vec != text.as_bytes() || val != text {
                s.push_str(" WRITERS-DIFFER");
            }
            if let Ok(ct) = catch_unwind(AssertUnwindSafe(|| CompoundType::from(t))) {
                let ctext = serde_json::to_string(&ct).ok()?;
                if ctext != text {
                    s.push_str(&format!(" COMPOUND-DIFFERS {}", hex(ctext.as_bytes())));
                }
            }
            Some(s)
        }
        ["tyenc", "tyde", e, h] if ENTRIES.contains(e) => {
            let bytes = unhex(h)?;
            Some(match de_type(e, &bytes) {
                De::Ok(t) => format!("ok {}", ty_str(&t)),
                De::Err => "err".to_string(),
                De::Panic => "panic".to_string(),
            })
        }
        ["tyenc", "ctde", e, h] if ENTRIES.contains(e) => {
            let bytes = unhex(h)?;
            Some(match de_compound(e, &bytes) {
                De::Ok(ct) => format!("ok {}", compound_fields(&ct)),
                De::Err => "err".to_string(),
                De::Panic => "panic".to_string(),
            })
        }
        ["tyenc", "sch", e, fs] if ENTRIES.contains(e) => {
            let mut b = SchemeBuilder::new();
            if *fs != "." {
                for f in fs.split(',') {
                    let p: Vec<&str> = f.split(':').collect();
                    let [n, t, o] = p.as_slice() else { return None };
                    let name = String::from_utf8(unhex(n)?).ok()?;
                    let t = parse_ty(t)?;
                    let r = match *o {
                        "1" => b.add_optional_field(&name, t),
                        "0" => b.add_field(&name, t),
                        _ => return None,
                    };
                    if r.is_err() {
                        return Some("dup".to_string());
                    }
                }
            }
            let s = b.build();
            let text = serde_json::to_string(&s).ok()?;
            let res = if *e == "value" {
                // the value tree produced by the serializer itself
                let v = serde_json::to_value(&s).ok()?;
                match catch_unwind(AssertUnwindSafe(|| serde_json::from_value::<Scheme>(v))) {
                    Ok(Ok(s2)) => De::Ok(s2),
                    Ok(Err(_)) => De::Err,
                    Err(_) => De::Panic,
                }
            } else {
                de_scheme(e, text.as_bytes())
            };
            Some(format!("{} {}", hex(text.as_bytes()), scheme_answer(res)))
        }
        ["tyenc", "schdoc", e, h] if ENTRIES.contains(e) => {
            let bytes = unhex(h)?;
            Some(scheme_answer(de_scheme(e, &bytes)))
        }
        _ => None,
    }
}

pub fn replay(op: &str) -> Option<String> {
    quiet_panics();
    answer(op)
}

// ------------------------------------------------------------------------------ generators

fn layers_of(code: &str) -> usize {
    code.len() - 1
}

fn emit(out: &mut Out, op: &str, nontrivial: bool, tags: &[&str]) {
    let ans = answer(op).unwrap_or_else(|| "harness-cannot-run-op".to_string());
    out.case(op, &ans, if nontrivial { Some(op) } else { None }, tags);
}

/// the JSON text of a type code, rendered by the harness (not by the engine), so that
/// descriptors the engine cannot even represent can be written down
fn descriptor(code: &str, core: &str) -> String {
    let mut s = String::new();
    let n = code.len() - 1;
    for c in code[..n].chars() {
        s.push_str(if c == 'A' { "{\"Array\":" } else { "{\"Map\":" });
    }
    s.push_str(core);
    for _ in 0..n {
        s.push('}');
    }
    s
}

fn prim_name(c: char) -> &'static str {
    match c {
        'B' => "\"Bool\"",
        'I' => "\"Int\"",
        'P' => "\"Ip\"",
        _ => "\"Bytes\"",
    }
}

fn code_text(code: &str) -> String {
    descriptor(code, prim_name(code.chars().last().unwrap()))
}

/// every op about one representable type (<= 33 layers)
fn type_ops(out: &mut Out, code: &str, entry_rot: usize, tag: &str) {
    let n = layers_of(code);
    let lt = format!("layers.{n:02}");
    let nt = n >= 1;
    emit(out, &format!("tyenc pack {code}"), nt, &[tag, &lt, "op.pack"]);
    emit(out, &format!("tyenc cpack {code}"), nt, &[tag, "op.cpack"]);
    emit(out, &format!("tyenc json {code}"), nt, &[tag, "op.json"]);
    let text = hex(code_text(code).as_bytes());
    for e in ENTRIES {
        emit(out, &format!("tyenc tyde {e} {text}"), nt, &[tag, "op.tyde", &format!("entry.{e}")]);
    }
    let e = ENTRIES[entry_rot % 4];
    emit(out, &format!("tyenc ctde {e} {text}"), nt, &[tag, "op.ctde"]);
}

fn layer_string(kind: u64, n: usize, rng: &mut Rng) -> String {
    (0..n)
        .map(|i| match kind {
            0 => 'A',
            1 => 'M',
            2 => if i % 2 == 0 { 'A' } else { 'M' },
            3 => if i % 2 == 0 { 'M' } else { 'A' },
            _ => if rng.chance(1, 2) { 'A' } else { 'M' },
        })
        .collect()
}

fn rand_type(rng: &mut Rng, max_layers: usize) -> String {
    let n = rng.below(max_layers as u64 + 1) as usize;
    let mut s = layer_string(4, n, rng);
    s.push(*rng.pick(&PRIMS));
    s
}

fn rand_name(rng: &mut Rng, uniq: u64) -> String {
    let base = match rng.below(11) {
        // names that look like reserved members of other documents (`$lists` of a serialized
        // context), or like nothing an identifier can be: a scheme accepts any name
        9 => (*rng.pick(&["$lists", "$schema", "$", "$x", "#", "@type", "__proto__"])).to_string(),
        10 => (*rng.pick(&["", " ", "null", "true", "0", "type", "data"])).to_string(),
        0 => "http.request.uri".to_string(),
        1 => "x".to_string(),
        2 => format!("tcp.port.{}", rng.below(5)),
        3 => "é.日本.😀".to_string(),
        4 => "quo\"te\\back".to_string(),
        5 => "line\nbreak\ttab\u{1}ctl\u{7f}".to_string(),
        6 => "a".repeat(1 + rng.below(300) as usize),
        7 => "ip.geoip.asnum".to_string(),
        _ => {
            let alphabet: Vec<char> = "abcXYZ019_.-/ \"\\\u{8}\u{c}\r\u{1f}ßж€𝄞".chars().collect();
            (0..rng.below(12)).map(|_| *rng.pick(&alphabet)).collect()
        }
    };
    if uniq == 0 { base } else { format!("{base}{uniq}") }
}

fn field_tok(name: &str, ty: &str, opt: bool) -> String {
    format!("{}:{}:{}", hex(name.as_bytes()), ty, if opt { 1 } else { 0 })
}

fn json_key(name: &str) -> String {
    serde_json::to_string(name).unwrap()
}

/// `\uXXXX`-escape every UTF-16 unit of the name (a spelling only a reader that unescapes
/// can match against the plain one)
fn json_key_escaped(name: &str) -> String {
    let mut s = String::from("\"");
    for u in name.encode_utf16() {
        s.push_str(&format!("\\u{u:04x}"));
    }
    s.push('"');
    s
}

fn field_body(ty_text: &str, opt: bool) -> String {
    format!("{{\"type\":{ty_text},\"optional\":{opt}}}")
}

pub fn run(cfg: Cfg, out: &mut Out) {
    quiet_panics();
    let mut rng = cfg.rng();
    let quick = cfg.quick();

    // 0. fixed probes, one per (kind, entry point): small and first in the stream, ordered so
    //    that the first few disagreements of a run are of different kinds (bin/check reports
    //    the first 8 distinct shapes)
    if cfg.mine(0) {
        let deep34 = hex(code_text(&format!("{}I", "A".repeat(34))).as_bytes());
        let deep33 = hex(code_text(&format!("{}I", "A".repeat(33))).as_bytes());
        let one_field = field_tok("a", "AI", false);
        let esc = hex(format!("{{{}:{}}}", json_key_escaped("a"), field_body("\"Int\"", false)).as_bytes());
        let dup = hex(
            format!("{{\"a\":{},\"a\":{}}}", field_body("\"Int\"", false), field_body("\"Int\"", false)).as_bytes(),
        );
        let deep_in_scheme = hex(
            format!("{{\"f\":{}}}", field_body(&code_text(&format!("{}Y", "M".repeat(34))), true)).as_bytes(),
        );
        let first: Vec<String> = vec![
            format!("tyenc tyde str {deep34}"),
            format!("tyenc sch reader {one_field}"),
            format!("tyenc sch value {one_field}"),
            format!("tyenc schdoc str {esc}"),
            format!("tyenc ctde str {deep33}"),
            format!("tyenc schdoc str {deep_in_scheme}"),
            format!("tyenc tyde value {deep34}"),
            format!("tyenc schdoc slice {esc}"),
        ];
        for op in &first {
            emit(out, op, true, &["probe"]);
        }
        for e in ENTRIES {
            for op in [
                format!("tyenc tyde {e} {deep34}"),
                format!("tyenc ctde {e} {deep33}"),
                format!("tyenc sch {e} {one_field}"),
                format!("tyenc schdoc {e} {esc}"),
                format!("tyenc schdoc {e} {dup}"),
                format!("tyenc schdoc {e} {deep_in_scheme}"),
            ] {
                if !first.contains(&op) {
                    emit(out, &op, true, &["probe"]);
                }
            }
        }
    }

    // 1. exhaustive: every layer string of length <= L over the four primitives
    let max_l = if quick { 8 } else { 12 };
    // (a shard takes a layer string with all four primitives, smallest first, so that the
    // first disagreement a shard meets is a small one)
    let mut idx = 0u64;
    for n in 0..=max_l {
        for bits in 0..(1u64 << n) {
            idx += 1;
            if !cfg.mine(idx - 1) {
                continue;
            }
            for (k, p) in PRIMS.iter().enumerate() {
                let mut code: String = (0..n).map(|i| if (bits >> i) & 1 == 0 { 'A' } else { 'M' }).collect();
                code.push(*p);
                type_ops(out, &code, idx as usize + k, "ty.exhaustive");
            }
        }
    }
    out.notes.push(format!(
        "types: exhaustively every array/map layer string of length <= {max_l} over 4 primitives ({} types), 8 ops each",
        4 * ((1u64 << (max_l + 1)) - 1)
    ));

    // 2. sampled 13..=33 layers: all-array, all-map, both alternations, random
    let per_n = cfg.share(if quick { 24 } else { 2000 });
    for n in (max_l + 1)..=33 {
        for kind in 0..4u64 {
            idx += 1;
            if !cfg.mine(idx) {
                continue;
            }
            for (k, p) in PRIMS.iter().enumerate() {
                let mut code = layer_string(kind, n, &mut rng);
                code.push(*p);
                type_ops(out, &code, idx as usize + k, "ty.sampled.pattern");
            }
        }
        for k in 0..per_n {
            let mut code = layer_string(4, n, &mut rng);
            code.push(*rng.pick(&PRIMS));
            type_ops(out, &code, k as usize, "ty.sampled.random");
        }
    }

    // 3. C structs supplied by a C caller: every (len <= 5, layers < 2^(len+1), code 0..=5, 255),
    //    then random len 0..=40, arbitrary u32 layers (bits above `len` are garbage)
    for len in 0..=5u32 {
        for layers in 0..(1u32 << (len + 1)) {
            for code in [0u32, 1, 2, 3, 4, 5, 255] {
                idx += 1;
                if !cfg.mine(idx) {
                    continue;
                }
                emit(out, &format!("tyenc cunpack {layers} {len} {code}"), len >= 1, &["cunpack.exhaustive"]);
            }
        }
    }
    for _ in 0..cfg.share(if quick { 3000 } else { 300_000 }) {
        let len = if rng.chance(1, 5) { 30 + rng.below(11) } else { rng.below(41) };
        let mut layers = rng.next() as u32;
        if rng.chance(1, 2) && len < 32 {
            layers &= (1u32 << len) - 1;
        }
        let code = if rng.chance(1, 12) { rng.below(256) } else { 1 + rng.below(4) };
        emit(out, &format!("tyenc cunpack {layers} {len} {code}"), len >= 1, &["cunpack.random", &format!("clen.{len:02}")]);
    }

    // 4. descriptors with 33..=130 layers, through every entry point, as Type and as CompoundType
    let cores = ["\"Int\"", "\"Bool\"", "\"Ip\"", "\"Bytes\"", "{\"Int\":null}", "\"Nope\"", "null"];
    for n in 33..=130usize {
        for kind in 0..5u64 {
            idx += 1;
            if !cfg.mine(idx) {
                continue;
            }
            let ls = layer_string(kind, n, &mut rng);
            let core = if kind == 4 { *rng.pick(&cores) } else { cores[(n + kind as usize) % 4] };
            let text = hex(descriptor(&format!("{ls}I"), core).as_bytes());
            let lt = format!("deep.{}", if n == 33 { "33" } else if n < 128 { "34-127" } else { "128-130" });
            for e in ENTRIES {
                emit(out, &format!("tyenc tyde {e} {text}"), true, &["ty.deep", &lt]);
                emit(out, &format!("tyenc ctde {e} {text}"), true, &["ty.deep"]);
            }
        }
    }

    // 5. malformed / unusual descriptors
    let odd: Vec<String> = [
        "\"Array\"", "\"Map\"", "{\"Int\":null}", "{\"Bool\":null}", "{\"Int\":1}", "{\"Int\":\"Int\"}",
        "{\"Array\":\"Int\",\"Map\":\"Int\"}", "{\"Array\":\"Int\",\"Array\":\"Bool\"}", "{}", "[]", "null", "1", "true",
        "\"int\"", "\"INT\"", "\"\"", "{\"array\":\"Int\"}", "{\"Array\":null}", "{\"Array\":[\"Int\"]}",
        "[\"Array\",\"Int\"]", "{\"Array\":{\"Int\":null}}", "{\"Map\":{\"Array\":{\"Bytes\":null}}}",
        " { \"Array\" :\n\t\"Ip\" } ", "{\"Array\":\"Int\"", "{\"Array\":\"Int\"}}", "{\"Array\":\"Int\"} x",
        "{\"Array\":\"Int\",}", "{\"Array\" \"Int\"}", "\"Int", "{\"\\u0041rray\":\"Int\"}", "\"\\u0049nt\"",
        "{\"Array\":{\"Map\":\"Array\"}}", "{\"Map\":{}}", "{\"Map\":{\"Map\":7}}", "-0", "{\"Array\":-12}",
        "{\"Ip\":null,\"Ip\":null}", "{\"Bytes\":[]}", "{\"Bytes\":{}}", "{\"Bytes\":false}",
    ]
    .iter()
    .map(|s| s.to_string())
    .collect();
    for (i, text) in odd.iter().enumerate() {
        if !cfg.mine(i as u64) {
            continue;
        }
        let h = hex(text.as_bytes());
        for e in ENTRIES {
            emit(out, &format!("tyenc tyde {e} {h}"), text.contains("Array") || text.contains("Map"), &["ty.malformed"]);
            emit(out, &format!("tyenc ctde {e} {h}"), false, &["ty.malformed"]);
        }
    }
    // truncations and single-character edits of valid descriptors
    for _ in 0..cfg.share(if quick { 400 } else { 20_000 }) {
        let code = rand_type(&mut rng, 5);
        let mut text = code_text(&code).into_bytes();
        match rng.below(4) {
            0 => {
                let k = rng.below(text.len() as u64 + 1) as usize;
                text.truncate(k);
            }
            1 => {
                let k = rng.below(text.len() as u64) as usize;
                text.remove(k);
            }
            2 => {
                let k = rng.below(text.len() as u64) as usize;
                text[k] = *rng.pick(b"{}\":, xA0n");
            }
            _ => {
                let k = rng.below(text.len() as u64 + 1) as usize;
                text.insert(k, *rng.pick(b"{}\":, \n"));
            }
        }
        let e = *rng.pick(&ENTRIES);
        emit(out, &format!("tyenc tyde {e} {}", hex(&text)), false, &["ty.mutated"]);
    }

    // 6. schemes with 0..=40 fields through the four entry points
    let n_sch = cfg.share(if quick { 240 } else { 4_000 });
    for k in 0..n_sch {
        let nf = if k < 3 { k } else { rng.below(41) } as usize;
        let mut toks = Vec::new();
        let mut names: Vec<String> = Vec::new();
        let mut container = false;
        for i in 0..nf {
            let mut name = rand_name(&mut rng, 0);
            if names.contains(&name) {
                name = rand_name(&mut rng, i as u64 + 1);
            }
            if names.contains(&name) {
                continue;
            }
            let ty = match rng.below(12) {
                0 => {
                    let mut c = layer_string(4, 32, &mut rng);
                    c.push('Y');
                    c
                }
                1 => {
                    let mut c = layer_string(4, 33, &mut rng);
                    c.push('P');
                    c
                }
                _ => rand_type(&mut rng, 4),
            };
            container |= ty.len() > 1;
            toks.push(field_tok(&name, &ty, rng.chance(1, 3)));
            names.push(name);
        }
        // now and then a repeated name: the builder itself must refuse it
        let mut tag = "sch.roundtrip";
        if nf >= 2 && rng.chance(1, 15) {
            let j = rng.below(names.len() as u64) as usize;
            toks.push(field_tok(&names[j], "I", false));
            tag = "sch.builder-dup";
        }
        let fs = if toks.is_empty() { ".".to_string() } else { toks.join(",") };
        for e in ENTRIES {
            emit(out, &format!("tyenc sch {e} {fs}"), container, &[tag, &format!("sch.entry.{e}"), &format!("sch.fields.{:02}", nf / 5 * 5)]);
        }
    }

    // 7. scheme documents written by hand: duplicates, escaped keys, shapes serde accepts or refuses
    let n_doc = cfg.share(if quick { 500 } else { 25_000 });
    for _ in 0..n_doc {
        let nf = 1 + rng.below(6) as usize;
        let mut names: Vec<String> = Vec::new();
        let mut entries: Vec<(String, String)> = Vec::new(); // (key literal, body text)
        for i in 0..nf {
            let mut name = rand_name(&mut rng, 0);
            if names.contains(&name) {
                name = format!("{name}{i}");
            }
            let ty = rand_type(&mut rng, 3);
            entries.push((json_key(&name), field_body(&code_text(&ty), rng.chance(1, 2))));
            names.push(name);
        }
        let j = rng.below(nf as u64) as usize;
        let tag: &str;
        match rng.below(20) {
            0 => {
                // same key twice, same body
                let e = entries[j].clone();
                entries.push(e);
                tag = "schdoc.dup.same";
            }
            1 => {
                // same key twice, different body, adjacent
                let e = (entries[j].0.clone(), field_body("{\"Map\":\"Ip\"}", true));
                entries.insert(j + 1, e);
                tag = "schdoc.dup.different";
            }
            2 => {
                // duplicate spelled with \u escapes
                let e = (json_key_escaped(&names[j]), entries[j].1.clone());
                entries.insert(rng.below(entries.len() as u64 + 1) as usize, e);
                tag = "schdoc.dup.escaped";
            }
            3 => {
                entries[j].0 = json_key_escaped(&names[j]);
                tag = "schdoc.key.escaped";
            }
            4 => {
                entries[j].1 = "{\"optional\":true,\"type\":{\"Array\":\"Bytes\"}}".to_string();
                tag = "schdoc.field.reordered";
            }
            5 => {
                entries[j].1 = "[{\"Map\":\"Int\"},false]".to_string();
                tag = "schdoc.field.seq";
            }
            6 => {
                entries[j].1 = "{\"type\":\"Int\",\"extra\":[1,{\"k\":null}],\"optional\":false,\"more\":\"x\"}".to_string();
                tag = "schdoc.field.unknown-key";
            }
            7 => {
                entries[j].1 = "{\"type\":\"Int\"}".to_string();
                tag = "schdoc.field.missing-optional";
            }
            8 => {
                entries[j].1 = "{\"optional\":false}".to_string();
                tag = "schdoc.field.missing-type";
            }
            9 => {
                entries[j].1 = "{\"type\":\"Int\",\"type\":\"Int\",\"optional\":false}".to_string();
                tag = "schdoc.field.dup-type";
            }
            10 => {
                entries[j].1 = format!("{{\"type\":\"Int\",\"optional\":{}}}", rng.pick(&["\"false\"", "0", "null", "[]"]));
                tag = "schdoc.field.optional-not-bool";
            }
            11 => {
                entries[j].1 = format!("{{\"type\":{},\"optional\":true}}", rng.pick(&["\"int\"", "null", "{\"Array\":null}", "3", "{}"]));
                tag = "schdoc.field.bad-type";
            }
            12 => {
                let n = 33 + rng.below(3) as usize;
                let ls = layer_string(4, n, &mut rng);
                entries[j].1 = field_body(&descriptor(&format!("{ls}I"), "\"Bytes\""), false);
                tag = "schdoc.field.deep-type";
            }
            13 => {
                entries[j].1 = rng.pick(&["null", "\"Int\"", "true", "[]", "[\"Int\"]", "[\"Int\",true,1]", "{}"]).to_string();
                tag = "schdoc.field.wrong-shape";
            }
            14 => {
                entries[j].1 = "[\"Ip\" , true ]".to_string();
                entries[j].0 = format!(" {} ", entries[j].0);
                tag = "schdoc.whitespace";
            }
            15 => {
                entries[j].1 = "{\"type\":\"Int\",\"optional\":false,\"optional\":false}".to_string();
                tag = "schdoc.field.dup-optional";
            }
            _ => {
                tag = "schdoc.plain";
            }
        }
        let mut text = format!(
            "{{{}}}",
            entries.iter().map(|(k, b)| format!("{k}:{b}")).collect::<Vec<_>>().join(",")
        );
        let mut tag = tag;
        match rng.below(14) {
            0 => {
                let k = rng.below(text.len() as u64 + 1) as usize;
                let mut b = text.into_bytes();
                b.truncate(k);
                // keep the document valid UTF-8 (cut back to a character boundary)
                while std::str::from_utf8(&b).is_err() {
                    b.pop();
                }
                text = String::from_utf8(b).unwrap();
                tag = "schdoc.truncated";
            }
            1 => {
                text = rng.pick(&["[]", "null", "\"x\"", "0", "[{}]", "{", "{}}", "{} {}", " {\n} "]).to_string();
                tag = "schdoc.toplevel";
            }
            _ => {}
        }
        let h = hex(text.as_bytes());
        for e in ENTRIES {
            emit(out, &format!("tyenc schdoc {e} {h}"), text.contains("Array") || text.contains("Map"), &[tag, &format!("schdoc.entry.{e}")]);
        }
    }
}
