//! C11 (wildcard half) — `b wildcard <literal>` / `b strict wildcard <literal>` through real
//! filters: parse with a configured star limit, compile, execute.
//!
//! ALL literal bodies over {a, B, *, \, ?} up to length N, each as the body of a quoted
//! literal `"…"` (where the string lexer's own escapes apply first) and of a raw literal
//! `r"…"` (verbatim), x star limits 0..4 and unlimited, x both operators, x ALL values over
//! {a, A, b, B, \xff} up to length M.
//!
//! op lines (see lean/WfModel/Drv/Wild.lean):
//!   wildp <strict> <hex literal> <limits>              parse outcome under each limit
//!   wild  <strict> <limit> <hex literal> <hex value>   one execution
//!   wildm <strict> <limit> <hex literal> <hex alphabet> <n>   all values up to length n
use crate::Cfg;
use crate::out::{Out, hex};
use std::panic::{AssertUnwindSafe, catch_unwind};
use wirefilter::{ExecutionContext, Filter, FilterAst, ParserSettings, Scheme, SchemeBuilder, Type};

const BODY_ALPHABET: [u8; 5] = [b'a', b'B', b'*', b'\\', b'?'];
const VALUE_ALPHABET: [u8; 5] = [b'a', b'A', b'b', b'B', 0xff];
const LIMITS: [Option<usize>; 6] = [Some(0), Some(1), Some(2), Some(3), Some(4), None];

pub fn scheme() -> Scheme {
    let mut b = SchemeBuilder::new();
    b.add_field("b", Type::Bytes).unwrap();
    b.build()
}

/// classification of a parse error by the kind text at the end of its Display form
pub fn error_kind_text(e: &wirefilter::ParseError<'_>) -> String {
    let t = e.to_string();
    // line 1: "Filter parsing error (l:c):", line 2: the input line, rest: "   ^^^ <kind>"
    let mut it = t.splitn(3, '\n');
    it.next();
    it.next();
    it.next().unwrap_or("").trim_start_matches(' ').trim_start_matches('^').trim().to_string()
}

fn classify(e: &wirefilter::ParseError<'_>) -> &'static str {
    let k = error_kind_text(e);
    if k.contains("star metacharacters, but the limit is") {
        "err.stars"
    } else if k.contains("wildcard contains a double star") {
        "err.doublestar"
    } else if k.contains("invalid wildcard") && k.contains("incomplete escape sequence") {
        "err.incomplete"
    } else if k.contains("invalid wildcard") && k.contains("invalid escape sequence") {
        "err.escape"
    } else if k.contains("invalid wildcard") {
        "err.wildcard-other"
    } else {
        "err.lex"
    }
}

fn limit_tok(l: Option<usize>) -> String {
    l.map_or("max".to_string(), |n| n.to_string())
}

fn parse<'s>(s: &'s Scheme, strict: bool, limit: Option<usize>, lit: &str, via_setter: bool) -> Result<FilterAst, String> {
    // the limit applies at every nesting depth: the comparison is written plain, in parentheses
    // and in double parentheses in turn (same meaning, nested parsers)
    use std::sync::atomic::{AtomicUsize, Ordering};
    static WRAP: AtomicUsize = AtomicUsize::new(0);
    let text = format!("b {} {}", if strict { "strict wildcard" } else { "wildcard" }, lit);
    let text = match WRAP.fetch_add(1, Ordering::Relaxed) % 3 {
        0 => text,
        1 => format!("({text})"),
        _ => format!("(({text}))"),
    };
    let r = catch_unwind(AssertUnwindSafe(|| {
        // two ways of configuring the limit; both must behave the same
        let parser = if via_setter {
            let mut p = s.parser();
            p.wildcard_set_star_limit(limit.unwrap_or(usize::MAX));
            p
        } else {
            s.parser_with_settings(ParserSettings { wildcard_star_limit: limit.unwrap_or(usize::MAX), ..Default::default() })
        };
        parser.parse(&text).map_err(|e| classify(&e).to_string())
    }));
    match r {
        Ok(x) => x,
        Err(_) => Err("panic".to_string()),
    }
}

fn exec(s: &Scheme, f: &Filter, v: &[u8]) -> Option<bool> {
    catch_unwind(AssertUnwindSafe(|| {
        let mut ctx = ExecutionContext::new(s);
        ctx.set_field_value(s.get_field("b").unwrap(), v.to_vec()).unwrap();
        f.execute(&ctx).ok()
    }))
    .ok()
    .flatten()
}

/// all strings over `al` of length 0..=n, shorter first, then lexicographic in alphabet order
pub fn all_up_to(al: &[u8], n: usize) -> Vec<Vec<u8>> {
    let mut out: Vec<Vec<u8>> = Vec::new();
    let mut level: Vec<Vec<u8>> = vec![vec![]];
    out.push(vec![]);
    for _ in 0..n {
        let mut next = Vec::with_capacity(level.len() * al.len());
        // first symbol most significant: prepend each letter to every shorter string
        for a in al {
            for w in &level {
                let mut x = Vec::with_capacity(w.len() + 1);
                x.push(*a);
                x.extend_from_slice(w);
                next.push(x);
            }
        }
        out.extend(next.iter().cloned());
        level = next;
    }
    out
}

fn literal(body: &[u8], raw: bool) -> String {
    let b = String::from_utf8(body.to_vec()).unwrap();
    if raw { format!("r\"{b}\"") } else { format!("\"{b}\"") }
}

struct Ctx<'a> {
    s: &'a Scheme,
    values: Vec<Vec<u8>>,
    vmax: usize,
}

fn one_literal(c: &Ctx<'_>, out: &mut Out, lit: &str, strict: bool, tag: &str, singles: &[Vec<u8>]) {
    let s = c.s;
    let st = strict as u8;
    // 1. parse outcome under every limit
    let mut outs = Vec::new();
    let mut accepted_max: Option<FilterAst> = None;
    for (i, l) in LIMITS.iter().enumerate() {
        match parse(s, strict, *l, lit, i % 2 == 0) {
            Ok(ast) => {
                outs.push("ok".to_string());
                if l.is_none() {
                    accepted_max = Some(ast);
                }
            }
            Err(e) => outs.push(e),
        }
    }
    let limits = LIMITS.iter().map(|l| limit_tok(*l)).collect::<Vec<_>>().join(",");
    let op = format!("wildp {st} {} {limits}", hex(lit.as_bytes()));
    let ans = outs.join(",");
    let some_ok = outs.iter().any(|o| o == "ok");
    let some_err = outs.iter().any(|o| o != "ok");
    out.case(&op, &ans, if some_ok && some_err { Some(&op) } else { None }, &[tag, "op.wildp", if some_ok { "parse.accepted" } else { "parse.rejected" }]);
    out.evaluations += LIMITS.len() as u64 - 1;
    for o in &outs {
        out.tag(&format!("outcome.{o}"));
    }
    // 2. execution: single readable cases first, then the whole value space in one line
    let Some(ast) = accepted_max else {
        // rejected even without a limit: the model must say so for a value too
        let op = format!("wild {st} max {} {}", hex(lit.as_bytes()), hex(b"a"));
        out.case(&op, outs.last().unwrap(), None, &[tag, "op.wild.rejected"]);
        return;
    };
    let f = match catch_unwind(AssertUnwindSafe(|| ast.compile())) {
        Ok(f) => f,
        Err(_) => {
            out.case(&format!("wild {st} max {} -", hex(lit.as_bytes())), "panic", None, &[tag]);
            return;
        }
    };
    for v in singles {
        let ans = exec(s, &f, v).map_or("panic".to_string(), |b| b.to_string());
        let op = format!("wild {st} max {} {}", hex(lit.as_bytes()), hex(v));
        out.case(&op, &ans, Some(&op), &[tag, "op.wild", if ans == "true" { "ans.true" } else { "ans.false" }]);
    }
    let mut bits = String::with_capacity(c.values.len());
    let mut ones = 0u64;
    for v in &c.values {
        match exec(s, &f, v) {
            Some(true) => {
                bits.push('1');
                ones += 1;
            }
            Some(false) => bits.push('0'),
            None => bits.push('P'),
        }
    }
    let op = format!("wildm {st} max {} {} {}", hex(lit.as_bytes()), hex(&VALUE_ALPHABET), c.vmax);
    out.case(&op, &format!("ok {bits}"), Some(&op), &[tag, "op.wildm"]);
    out.evaluations += c.values.len() as u64 - 1;
    *out.hist.entry("wildm.executions".to_string()).or_insert(0) += c.values.len() as u64;
    *out.hist.entry("wildm.matches".to_string()).or_insert(0) += ones;
}

/// values worth a readable single-case line for this body: the body with metacharacters
/// dropped, its case-swapped twin, one byte more / less
fn singles_for(body: &[u8]) -> Vec<Vec<u8>> {
    let plain: Vec<u8> = body.iter().copied().filter(|c| *c != b'*' && *c != b'\\').collect();
    let swapped: Vec<u8> = plain.iter().map(|c| if c.is_ascii_lowercase() { c.to_ascii_uppercase() } else { c.to_ascii_lowercase() }).collect();
    let mut longer = plain.clone();
    longer.push(b'b');
    let mut pre = vec![0xffu8];
    pre.extend_from_slice(&swapped);
    let mut v = vec![plain.clone(), swapped, longer, pre, b"*".to_vec(), b"\\".to_vec()];
    if !plain.is_empty() {
        v.push(plain[..plain.len() - 1].to_vec());
    }
    v.dedup();
    v
}

pub fn run(cfg: Cfg, out: &mut Out) {
    let s = scheme();
    let quick = cfg.quick();
    let bmax = if quick { 5 } else { 7 };
    let vmax = if quick { 4 } else { 5 };
    let c = Ctx { s: &s, values: all_up_to(&VALUE_ALPHABET, vmax), vmax };
    let bodies = all_up_to(&BODY_ALPHABET, bmax);
    let mut idx = 0u64;
    for body in &bodies {
        idx += 1;
        if !cfg.mine(idx) {
            continue;
        }
        for raw in [false, true] {
            for strict in [false, true] {
                let lit = literal(body, raw);
                let singles = singles_for(body);
                one_literal(&c, out, &lit, strict, if raw { "form.raw" } else { "form.quoted" }, &singles);
            }
        }
    }
    out.notes.push(format!(
        "wild: all {} literal bodies over {{a,B,*,\\,?}} up to length {bmax} x quoted/raw x wildcard/strict wildcard x limits 0..4,max; accepted ones executed on all {} values over {{a,A,b,B,ff}} up to length {vmax}",
        bodies.len(),
        c.values.len()
    ));

    // other literal spellings of the same patterns: raw strings with hashes, quoted strings
    // with \x / octal escapes for the metacharacters, embedded quotes
    if cfg.mine(0) {
        let extra: &[&str] = &[
            r###"r#"a*"B"#"###,
            r###"r##"*"#*"##"###,
            r#""\x2a\x5c\x5c""#,
            r#""a\052b""#,
            r#""\x5c\x2a""#,
            r#""\"*\"""#,
            r#""a\x5c""#,
            r#""\134\134""#,
            r#""a**b""#,
            r#"r"a**b""#,
            r#""*a*B*\\**""#,
            r#""*****""#,
            r#""*a*a*a*a*""#,
            r#""\xff*\xFF""#,
            r#""é*É""#,
        ];
        for lit in extra {
            for strict in [false, true] {
                one_literal(&c, out, lit, strict, "form.extra", &[b"a*b".to_vec(), b"a\"B".to_vec(), vec![0xff, 0xff], "éxé".as_bytes().to_vec(), "éÉ".as_bytes().to_vec(), b"*\\".to_vec()]);
            }
        }
        // default settings: unlimited stars
        let many = format!("b wildcard \"{}\"", "*a".repeat(200));
        match s.parse(&many) {
            Ok(_) => out.tag("default.unlimited.ok"),
            Err(e) => out.impl_failure(&many, &format!("200 stars rejected under default settings: {}", error_kind_text(&e))),
        }
    }
}

fn unhex(s: &str) -> Option<Vec<u8>> {
    if s == "-" {
        return Some(vec![]);
    }
    if s.len() % 2 != 0 {
        return None;
    }
    (0..s.len() / 2).map(|i| u8::from_str_radix(&s[2 * i..2 * i + 2], 16).ok()).collect()
}

fn parse_limit(t: &str) -> Option<Option<usize>> {
    if t == "max" { Some(None) } else { t.parse().ok().map(Some) }
}

pub fn replay(op: &str) -> Option<String> {
    let w: Vec<&str> = op.split(' ').collect();
    let s = scheme();
    match w.as_slice() {
        ["wildp", strict, lit, limits] => {
            let lit = String::from_utf8(unhex(lit)?).ok()?;
            let mut outs = Vec::new();
            for l in limits.split(',') {
                let l = parse_limit(l)?;
                outs.push(match parse(&s, *strict == "1", l, &lit, false) {
                    Ok(_) => "ok".to_string(),
                    Err(e) => e,
                });
            }
            Some(outs.join(","))
        }
        ["wild", strict, limit, lit, value] => {
            let lit = String::from_utf8(unhex(lit)?).ok()?;
            let v = unhex(value)?;
            match parse(&s, *strict == "1", parse_limit(limit)?, &lit, false) {
                Ok(ast) => {
                    let f = ast.compile();
                    Some(exec(&s, &f, &v).map_or("panic".to_string(), |b| b.to_string()))
                }
                Err(e) => Some(e),
            }
        }
        ["wildm", strict, limit, lit, al, n] => {
            let lit = String::from_utf8(unhex(lit)?).ok()?;
            let al = unhex(al)?;
            let n: usize = n.parse().ok()?;
            match parse(&s, *strict == "1", parse_limit(limit)?, &lit, false) {
                Ok(ast) => {
                    let f = ast.compile();
                    let bits: String = all_up_to(&al, n).iter().map(|v| match exec(&s, &f, v) {
                        Some(true) => '1',
                        Some(false) => '0',
                        None => 'P',
                    }).collect();
                    Some(format!("ok {bits}"))
                }
                Err(e) => Some(e),
            }
        }
        _ => None,
    }
}
