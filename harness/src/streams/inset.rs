//! C09 — `x in {...}` through real filters: parse -> compile -> execute.
//!
//! op lines (the trailing hex token is the filter text actually parsed; the model side
//! ignores it in this stream):
//!   inset int <x> <lo:hi,...|.> <hex text>
//!   inset ip <4|6> <x> <e.F.lo.hi|c.F.addr.len,...|.> <hex text>
//!   inset bytes <hex x> <hex,...|.> <hex text>
use crate::Cfg;
use crate::out::{Out, hex};
use crate::rng::Rng;
use std::net::{IpAddr, Ipv4Addr, Ipv6Addr};
use wirefilter::{ExecutionContext, Scheme, SchemeBuilder, Type};

fn scheme() -> Scheme {
    let mut b = SchemeBuilder::new();
    b.add_field("i", Type::Int).unwrap();
    b.add_field("ip", Type::Ip).unwrap();
    b.add_field("b", Type::Bytes).unwrap();
    b.add_optional_field("oi", Type::Int).unwrap();
    b.build()
}

#[derive(Clone, Debug)]
pub enum IpItem {
    Explicit(bool, u128, u128), // v6?, lo, hi
    Cidr(bool, u128, u32),
}

fn ip_of(v6: bool, x: u128) -> IpAddr {
    if v6 {
        IpAddr::V6(Ipv6Addr::from(x))
    } else {
        IpAddr::V4(Ipv4Addr::from(x as u32))
    }
}

fn exec(s: &Scheme, text: &str, set: impl FnOnce(&mut ExecutionContext<'_>)) -> String {
    let ast = match s.parse(text) {
        Ok(a) => a,
        Err(_) => return "err".to_string(),
    };
    let f = ast.compile();
    let mut ctx = ExecutionContext::new(s);
    // mandatory fields need values
    ctx.set_field_value(s.get_field("i").unwrap(), 0i64).unwrap();
    ctx.set_field_value(s.get_field("ip").unwrap(), IpAddr::V4(Ipv4Addr::from(0u32)))
        .unwrap();
    ctx.set_field_value(s.get_field("b").unwrap(), &b""[..]).unwrap();
    set(&mut ctx);
    match f.execute(&ctx) {
        Ok(b) => b.to_string(),
        Err(_) => "err".to_string(),
    }
}

fn int_text(items: &[(i64, i64)], style: u64) -> String {
    let mut t = String::from("i in {");
    for (k, (lo, hi)) in items.iter().enumerate() {
        if k > 0 {
            t.push(' ');
        }
        if lo == hi && (style >> k) & 1 == 0 {
            t.push_str(&lo.to_string());
        } else {
            t.push_str(&format!("{lo}..{hi}"));
        }
    }
    t.push('}');
    t
}

fn int_case(
    s: &Scheme,
    out: &mut Out,
    x: i64,
    items: &[(i64, i64)],
    text: &str,
    text_in_op: bool,
    tag: &str,
) {
    let ans = exec(s, text, |ctx| {
        ctx.set_field_value(s.get_field("i").unwrap(), x).unwrap();
    });
    let il = if items.is_empty() {
        ".".to_string()
    } else {
        items
            .iter()
            .map(|(a, b)| format!("{a}:{b}"))
            .collect::<Vec<_>>()
            .join(",")
    };
    let op = if text_in_op {
        format!("inset int {x} {il} {}", hex(text.as_bytes()))
    } else {
        format!("inset int {x} {il} -")
    };
    let related = items.len() >= 2
        && items.iter().enumerate().any(|(i, a)| {
            items.iter().enumerate().any(|(j, b)| {
                i != j && a.0 <= b.0 && (b.0 as i128) <= (a.1 as i128) + 1
            })
        });
    let key = format!("int {x} {il}");
    out.case(&op, &ans, if related { Some(&key) } else { None }, &[tag, &format!("int.len{}", items.len().min(9))]);
}

fn ip_item_text(it: &IpItem) -> String {
    match it {
        IpItem::Explicit(v6, lo, hi) => {
            if lo == hi {
                format!("{}", ip_of(*v6, *lo))
            } else {
                format!("{}..{}", ip_of(*v6, *lo), ip_of(*v6, *hi))
            }
        }
        IpItem::Cidr(v6, a, n) => format!("{}/{}", ip_of(*v6, *a), n),
    }
}

fn ip_item_op(it: &IpItem) -> String {
    match it {
        IpItem::Explicit(v6, lo, hi) => format!("e.{}.{lo}.{hi}", if *v6 { 6 } else { 4 }),
        IpItem::Cidr(v6, a, n) => format!("c.{}.{a}.{n}", if *v6 { 6 } else { 4 }),
    }
}

fn ip_item_rng(it: &IpItem) -> (bool, u128, u128) {
    match it {
        IpItem::Explicit(v6, lo, hi) => (*v6, *lo, *hi),
        IpItem::Cidr(v6, a, n) => {
            let w = if *v6 { 128 } else { 32 };
            let host = w - n;
            let size_m1: u128 = if host >= 128 { u128::MAX } else { (1u128 << host) - 1 };
            (*v6, *a, a + size_m1)
        }
    }
}

fn ip_case(s: &Scheme, out: &mut Out, v6: bool, x: u128, items: &[IpItem], tag: &str) {
    let mut text = String::from("ip in {");
    for (k, it) in items.iter().enumerate() {
        if k > 0 {
            text.push(' ');
        }
        text.push_str(&ip_item_text(it));
    }
    text.push('}');
    let ans = exec(s, &text, |ctx| {
        ctx.set_field_value(s.get_field("ip").unwrap(), ip_of(v6, x)).unwrap();
    });
    let il = if items.is_empty() {
        ".".to_string()
    } else {
        items.iter().map(ip_item_op).collect::<Vec<_>>().join(",")
    };
    let op = format!(
        "inset ip {} {x} {il} {}",
        if v6 { 6 } else { 4 },
        hex(text.as_bytes())
    );
    let rs: Vec<_> = items.iter().map(ip_item_rng).collect();
    let related = rs.len() >= 2
        && rs.iter().enumerate().any(|(i, a)| {
            rs.iter().enumerate().any(|(j, b)| {
                i != j && a.0 == b.0 && a.1 <= b.1 && b.1 <= a.2.saturating_add(1)
            })
        });
    let key = format!("ip {v6} {x} {il}");
    out.case(&op, &ans, if related { Some(&key) } else { None }, &[tag, if v6 { "ip.probe6" } else { "ip.probe4" }]);
}

fn bytes_lit(b: &[u8], style: u64) -> String {
    // quoted with escapes, or hex pairs when long enough
    if b.len() >= 2 && style % 3 == 0 {
        b.iter().map(|x| format!("{x:02x}")).collect::<Vec<_>>().join(":")
    } else {
        let mut t = String::from("\"");
        for &c in b {
            if c == b'"' || c == b'\\' {
                t.push('\\');
                t.push(c as char);
            } else if (0x20..0x7f).contains(&c) {
                t.push(c as char);
            } else {
                t.push_str(&format!("\\x{c:02x}"));
            }
        }
        t.push('"');
        t
    }
}

fn bytes_case(s: &Scheme, out: &mut Out, x: &[u8], items: &[Vec<u8>], style: u64, tag: &str) {
    let mut text = String::from("b in {");
    for (k, it) in items.iter().enumerate() {
        if k > 0 {
            text.push(' ');
        }
        text.push_str(&bytes_lit(it, style.wrapping_add(k as u64)));
    }
    text.push('}');
    let ans = exec(s, &text, |ctx| {
        ctx.set_field_value(s.get_field("b").unwrap(), x.to_vec()).unwrap();
    });
    let il = if items.is_empty() {
        ".".to_string()
    } else {
        items.iter().map(|b| hex(b)).collect::<Vec<_>>().join(",")
    };
    let op = format!("inset bytes {} {il} {}", hex(x), hex(text.as_bytes()));
    let nontrivial = items.len() >= 2;
    let key = format!("bytes {} {il}", hex(x));
    out.case(&op, &ans, if nontrivial { Some(&key) } else { None }, &[tag]);
}

fn all_lists<T: Clone>(pool: &[T], max_len: usize, f: &mut dyn FnMut(&[T])) {
    fn rec<T: Clone>(pool: &[T], cur: &mut Vec<T>, max_len: usize, f: &mut dyn FnMut(&[T])) {
        f(cur);
        if cur.len() == max_len {
            return;
        }
        for p in pool {
            cur.push(p.clone());
            rec(pool, cur, max_len, f);
            cur.pop();
        }
    }
    rec(pool, &mut Vec::new(), max_len, f);
}

pub fn run(cfg: Cfg, out: &mut Out) {
    let s = scheme();
    let mut rng = cfg.rng();
    let seed = cfg.seed;
    let quick = cfg.quick();

    // 1. exhaustive: all lists of <= N ranges over a 7-point integer domain x every probe
    //    (domain placed at a seed-dependent offset, including around the i64 extremes)
    let max_len = if quick { 3 } else { 4 };
    let bases: [i64; 3] = [-3, i64::MIN + 1, i64::MAX - 7];
    let base = bases[(seed % 3) as usize];
    let mut pool = Vec::new();
    for lo in 0..7i64 {
        for hi in lo..7 {
            pool.push((base + lo, base + hi));
        }
    }
    let mut idx = 0u64;
    all_lists(&pool, max_len, &mut |items| {
        idx += 1;
        if !cfg.mine(idx) {
            return;
        }
        // canonical rendering (every item as `lo..hi`); the op carries `-` for the text
        let text = int_text(items, u64::MAX);
        for p in -1..=7i64 {
            int_case(&s, out, base + p, items, &text, false, "int.exhaustive");
        }
    });
    out.notes.push(format!(
        "int exhaustive: all lists of <= {max_len} ranges over the 7-point domain [{base}, {}] x 9 probes",
        base + 6
    ));

    // 2. exhaustive small IPv4 /29 and IPv6 twin domains
    let ip_max = if quick { 2 } else { 3 };
    for v6 in [false, true] {
        let b: u128 = if v6 {
            if seed % 2 == 0 { 0x2001_0db8_0000_0000_0000_0000_0000_0008 } else { u128::MAX - 15 }
        } else if seed % 2 == 0 {
            0x0a00_0008
        } else {
            0xffff_fff0
        };
        let w = if v6 { 128 } else { 32 };
        let mut pool: Vec<IpItem> = Vec::new();
        for lo in 0..8u128 {
            for hi in lo..8 {
                if (hi - lo) % 2 == 0 || hi == 7 {
                    pool.push(IpItem::Explicit(v6, b + lo, b + hi));
                }
            }
        }
        for host in 0..=3u32 {
            let size = 1u128 << host;
            let mut a = 0;
            while a < 8 {
                pool.push(IpItem::Cidr(v6, b + a, w - host));
                a += size;
            }
        }
        // the other family's "match everything" item must never match
        let other = IpItem::Cidr(!v6, 0, 0);
        let mut idx = 0u64;
        all_lists(&pool, ip_max, &mut |items| {
            idx += 1;
            if !cfg.mine(idx) {
                return;
            }
            for p in 0..10u128 {
                ip_case(&s, out, v6, b - 1 + p, items, "ip.exhaustive");
            }
        });
        let mut with_other = vec![other.clone()];
        for it in pool.iter().take(6) {
            with_other.push(it.clone());
            for p in 0..10u128 {
                ip_case(&s, out, v6, b - 1 + p, &with_other, "ip.mixed_family");
                ip_case(&s, out, !v6, if v6 { (b as u32) as u128 } else { b }, &with_other, "ip.mixed_family");
            }
        }
    }

    // 3. random lists of <= 40 items with clustered endpoints and extremes
    let n_rand = cfg.share(if quick { 1500 } else { 100000 });
    for _ in 0..n_rand {
        let n = rng.below(41) as usize;
        let centre = *rng.pick(&[0i64, i64::MIN, i64::MAX, 1000, -77]);
        let mut pts: Vec<i64> = Vec::new();
        let mut items = Vec::new();
        for _ in 0..n {
            let a = near(&mut rng, centre, &pts);
            let b = if rng.chance(1, 4) { a } else { near(&mut rng, a, &pts) };
            let (lo, hi) = if a <= b { (a, b) } else { (b, a) };
            pts.push(lo);
            pts.push(hi);
            items.push((lo, hi));
        }
        if rng.chance(1, 10) {
            items.push((i64::MIN, i64::MAX));
        }
        let text = int_text(&items, rng.next());
        let mut probes: Vec<i64> = vec![i64::MIN, i64::MAX, 0, centre];
        for p in pts.iter().take(12) {
            probes.push(*p);
            probes.push(p.saturating_add(1));
            probes.push(p.saturating_sub(1));
        }
        for x in probes {
            int_case(&s, out, x, &items, &text, true, "int.random");
        }
    }
    // random IP lists
    for _ in 0..n_rand / 2 {
        let n = rng.below(20) as usize;
        let mut items = Vec::new();
        let mut pts: Vec<(bool, u128)> = vec![(false, 0), (false, u32::MAX as u128), (true, 0), (true, u128::MAX)];
        for _ in 0..n {
            let v6 = rng.chance(1, 2);
            let w: u32 = if v6 { 128 } else { 32 };
            let max: u128 = if v6 { u128::MAX } else { u32::MAX as u128 };
            let centre: u128 = *rng.pick(&[0u128, max, max / 2, 0x0a00_0000]);
            let centre = centre.min(max);
            let a = near_u(&mut rng, centre, max);
            if rng.chance(1, 2) {
                let len = if rng.chance(1, 6) { 0 } else { w - (rng.below(12) as u32).min(w) };
                let host = w - len;
                let addr = if host >= 128 { 0 } else { (a >> host) << host };
                items.push(IpItem::Cidr(v6, addr, len));
                pts.push((v6, addr));
                let last = ip_item_rng(&IpItem::Cidr(v6, addr, len)).2;
                pts.push((v6, last));
            } else {
                let b = near_u(&mut rng, a, max);
                let (lo, hi) = if a <= b { (a, b) } else { (b, a) };
                items.push(IpItem::Explicit(v6, lo, hi));
                pts.push((v6, lo));
                pts.push((v6, hi));
            }
        }
        let pts2: Vec<_> = pts.iter().rev().take(14).cloned().collect();
        for (v6, p) in pts2 {
            let max: u128 = if v6 { u128::MAX } else { u32::MAX as u128 };
            ip_case(&s, out, v6, p, &items, "ip.random");
            ip_case(&s, out, v6, p.saturating_add(1).min(max), &items, "ip.random");
            ip_case(&s, out, v6, p.saturating_sub(1), &items, "ip.random");
            // same numeric value in the other family where representable
            if v6 && p <= u32::MAX as u128 {
                ip_case(&s, out, false, p, &items, "ip.random.crossfam");
            } else if !v6 {
                ip_case(&s, out, true, p, &items, "ip.random.crossfam");
                // v4-mapped v6 address
                ip_case(&s, out, true, 0xffff_0000_0000u128 | p, &items, "ip.random.mapped");
            }
        }
    }

    // 4. byte-string sets: shared prefixes, empty string, duplicates, non-UTF-8
    let alphabet: [&[u8]; 8] = [b"", b"a", b"ab", b"abc", b"b", b"\xff", b"a\x00", b"ab\xfe"];
    let bmax = if quick { 2 } else { 3 };
    let pool: Vec<Vec<u8>> = alphabet.iter().map(|b| b.to_vec()).collect();
    let mut st = seed;
    all_lists(&pool, bmax, &mut |items| {
        st = st.wrapping_add(1);
        if !cfg.mine(st) {
            return;
        }
        for x in alphabet.iter() {
            bytes_case(&s, out, x, items, st, "bytes.exhaustive");
        }
        bytes_case(&s, out, b"abcd", items, st, "bytes.exhaustive");
    });
    for _ in 0..n_rand / 3 {
        let n = rng.below(12) as usize;
        let mut items: Vec<Vec<u8>> = Vec::new();
        for _ in 0..n {
            let l = rng.below(6) as usize;
            let mut v = Vec::new();
            for _ in 0..l {
                v.push(*rng.pick(&[b'a', b'b', 0u8, 0xffu8, b'"', b'\\', 0xc3, 0xa9]));
            }
            if rng.chance(1, 4) && !items.is_empty() {
                v = items[rng.below(items.len() as u64) as usize].clone();
            }
            items.push(v);
        }
        let style = rng.next();
        let mut probes: Vec<Vec<u8>> = items.iter().take(4).cloned().collect();
        probes.push(vec![]);
        probes.push(b"ab".to_vec());
        for it in items.iter().take(3) {
            let mut p = it.clone();
            p.push(b'a');
            probes.push(p);
            if !it.is_empty() {
                probes.push(it[..it.len() - 1].to_vec());
            }
        }
        for x in probes {
            bytes_case(&s, out, &x, &items, style, "bytes.random");
        }
    }

    // 4b. long items: lengths around powers of two and well beyond (length-indexed shortcuts,
    // small-string optimisations and bitmaps go wrong exactly there)
    for round in 0..(if quick { 40 } else { 400 }) {
        let lens: [usize; 14] = [7, 8, 15, 16, 31, 32, 33, 63, 64, 65, 127, 128, 255, 300];
        let n = 1 + rng.below(5) as usize;
        let mut items: Vec<Vec<u8>> = Vec::new();
        for _ in 0..n {
            let l = *rng.pick(&lens);
            let fill = *rng.pick(&[b'a', b'b', b'z']);
            let mut v = vec![fill; l];
            if rng.chance(1, 2) {
                let k = rng.below(l as u64) as usize;
                v[k] = b'q';
            }
            items.push(v);
        }
        if round % 3 == 0 {
            items.push(b"ab".to_vec());
        }
        let style = rng.next();
        let mut probes: Vec<Vec<u8>> = items.clone();
        for it in items.iter().take(3) {
            let mut p = it.clone();
            p.push(b'a');
            probes.push(p);
            probes.push(it[..it.len() - 1].to_vec());
            let mut q = it.clone();
            let k = q.len() / 2;
            q[k] ^= 1;
            probes.push(q);
        }
        for x in probes {
            bytes_case(&s, out, &x, &items, style, "bytes.long");
        }
    }

    // 5. absent left-hand side: optional field without value is never a member
    {
        let text = "oi in {0..10}";
        let ans = exec(&s, text, |_| {});
        if ans != "false" {
            out.impl_failure(text, &format!("absent lhs in {{..}} gave {ans}, expected false"));
        }
        out.tag("absent.lhs");
    }
}

fn near(rng: &mut Rng, centre: i64, pts: &[i64]) -> i64 {
    let c = if !pts.is_empty() && rng.chance(1, 2) { *rng.pick(pts) } else { centre };
    let d = rng.range(-4, 4);
    c.saturating_add(d)
}

fn near_u(rng: &mut Rng, centre: u128, max: u128) -> u128 {
    let d = rng.below(9) as u128;
    if rng.chance(1, 2) { centre.saturating_add(d).min(max) } else { centre.saturating_sub(d) }
}

fn unhex(s: &str) -> Option<Vec<u8>> {
    if s == "-" {
        return Some(vec![]);
    }
    if s.len() % 2 != 0 {
        return None;
    }
    (0..s.len() / 2)
        .map(|i| u8::from_str_radix(&s[2 * i..2 * i + 2], 16).ok())
        .collect()
}

/// Re-run one op line on the implementation (uses the embedded filter text).
pub fn replay(op: &str) -> Option<String> {
    let w: Vec<&str> = op.split(' ').collect();
    let s = scheme();
    match w.as_slice() {
        ["inset", "int", x, items, text] => {
            let x: i64 = x.parse().ok()?;
            let text = if *text == "-" {
                let mut its = Vec::new();
                if *items != "." {
                    for it in items.split(',') {
                        let (a, b) = it.split_once(':')?;
                        its.push((a.parse().ok()?, b.parse().ok()?));
                    }
                }
                int_text(&its, u64::MAX)
            } else {
                String::from_utf8(unhex(text)?).ok()?
            };
            Some(exec(&s, &text, |ctx| {
                ctx.set_field_value(s.get_field("i").unwrap(), x).unwrap();
            }))
        }
        ["inset", "ip", f, x, _, text] => {
            let x: u128 = x.parse().ok()?;
            let text = String::from_utf8(unhex(text)?).ok()?;
            Some(exec(&s, &text, |ctx| {
                ctx.set_field_value(s.get_field("ip").unwrap(), ip_of(*f == "6", x)).unwrap();
            }))
        }
        ["inset", "bytes", x, _, text] => {
            let x = unhex(x)?;
            let text = String::from_utf8(unhex(text)?).ok()?;
            Some(exec(&s, &text, |ctx| {
                ctx.set_field_value(s.get_field("b").unwrap(), x).unwrap();
            }))
        }
        _ => None,
    }
}
