//! Collector for one correspondence stream: op lines for the Lean driver, the
//! implementation's answers, and measured coverage statistics.
use std::collections::{BTreeMap, HashSet};
use std::hash::{Hash, Hasher};
use std::io::Write;

pub struct Out {
    ops: Vec<u8>,
    imp: Vec<u8>,
    pub evaluations: u64,
    distinct: HashSet<u64>,
    pub hist: BTreeMap<String, u64>,
    pub samples: Vec<String>,
    pub notes: Vec<String>,
    /// failures of the implementation against a harness-side oracle (reported separately
    /// from model disagreements): (op line, what)
    pub impl_failures: Vec<(String, String)>,
    sample_every: u64,
}

fn h64(s: &str) -> u64 {
    let mut h = std::collections::hash_map::DefaultHasher::new();
    s.hash(&mut h);
    h.finish()
}

impl Out {
    pub fn new() -> Self {
        Out {
            ops: Vec::new(),
            imp: Vec::new(),
            evaluations: 0,
            distinct: HashSet::new(),
            hist: BTreeMap::new(),
            samples: Vec::new(),
            notes: Vec::new(),
            impl_failures: Vec::new(),
            sample_every: 1,
        }
    }

    /// Record one case. `nontrivial_key`: Some(key) when the case is non-trivial by the
    /// property's rule; distinctness is counted on the key.
    pub fn case(&mut self, op: &str, answer: &str, nontrivial_key: Option<&str>, tags: &[&str]) {
        debug_assert!(!op.contains('\n') && !answer.contains('\n'));
        self.ops.extend_from_slice(op.as_bytes());
        self.ops.push(b'\n');
        self.imp.extend_from_slice(answer.as_bytes());
        self.imp.push(b'\n');
        self.evaluations += 1;
        if let Some(k) = nontrivial_key {
            self.distinct.insert(h64(k));
        }
        for t in tags {
            *self.hist.entry((*t).to_string()).or_insert(0) += 1;
        }
        if self.evaluations % self.sample_every == 0 && self.samples.len() < 12 {
            self.samples.push(format!("{op} => {answer}"));
            self.sample_every *= 7;
        }
    }

    pub fn tag(&mut self, t: &str) {
        *self.hist.entry(t.to_string()).or_insert(0) += 1;
    }

    pub fn impl_failure(&mut self, op: &str, what: &str) {
        if self.impl_failures.len() < 50 {
            self.impl_failures.push((op.to_string(), what.to_string()));
        }
    }

    pub fn write(&self, dir: &str, stream: &str) -> std::io::Result<()> {
        std::fs::create_dir_all(dir)?;
        std::fs::write(format!("{dir}/{stream}.ops"), &self.ops)?;
        std::fs::write(format!("{dir}/{stream}.impl"), &self.imp)?;
        let meta = serde_json::json!({
            "stream": stream,
            "evaluations": self.evaluations,
            "distinct_nontrivial": self.distinct.len(),
            "hist": self.hist,
            "samples": self.samples,
            "notes": self.notes,
            "impl_failures": self.impl_failures,
        });
        let mut f = std::fs::File::create(format!("{dir}/{stream}.meta.json"))?;
        f.write_all(serde_json::to_string_pretty(&meta).unwrap().as_bytes())?;
        Ok(())
    }
}

pub fn hex(bs: &[u8]) -> String {
    if bs.is_empty() {
        return "-".to_string();
    }
    let mut s = String::with_capacity(bs.len() * 2);
    for b in bs {
        s.push_str(&format!("{b:02x}"));
    }
    s
}
