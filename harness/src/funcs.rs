//! The family of functions and list matchers the harness registers — twins of
//! `funcByName`/`simpleImpl`/`callImpl`/`listMatch` in lean/WfModel.
use crate::codec::val_str;
use serde::{Deserialize, Serialize};
use std::collections::BTreeMap;
use wirefilter::{
    Array, CompiledFunction, FunctionArgs, FunctionDefinition, FunctionDefinitionContext,
    FunctionParam, FunctionParamError, GetType, LhsValue, ListDefinition, ListMatcher,
    ParserSettings, SimpleFunctionArgKind as K, SimpleFunctionDefinition, SimpleFunctionImpl,
    SimpleFunctionOptParam, SimpleFunctionParam, Type, TypeMismatchError,
};

fn p(kind: K, ty: Type) -> SimpleFunctionParam {
    SimpleFunctionParam { arg_kind: kind, val_type: ty }
}

fn bytes_of<'a>(v: LhsValue<'a>) -> Vec<u8> {
    match v {
        LhsValue::Bytes(b) => b.to_vec(),
        _ => panic!("harness function: expected bytes"),
    }
}

fn f_echo<'a>(args: FunctionArgs<'_, 'a>) -> Option<LhsValue<'a>> {
    match args.next()? {
        Ok(v) => Some(v),
        Err(_) => None,
    }
}

fn f_lower<'a>(args: FunctionArgs<'_, 'a>) -> Option<LhsValue<'a>> {
    match args.next()? {
        Ok(v) => Some(LhsValue::Bytes(bytes_of(v).to_ascii_lowercase().into())),
        Err(_) => None,
    }
}

fn f_len<'a>(args: FunctionArgs<'_, 'a>) -> Option<LhsValue<'a>> {
    match args.next()? {
        Ok(v) => Some(LhsValue::Int(bytes_of(v).len() as i64)),
        Err(_) => None,
    }
}

fn f_first<'a>(args: FunctionArgs<'_, 'a>) -> Option<LhsValue<'a>> {
    match args.next()? {
        Ok(LhsValue::Array(a)) => a.into_iter().next(),
        Ok(_) => panic!("harness function first: expected array"),
        Err(_) => None,
    }
}

fn f_opt2<'a>(args: FunctionArgs<'_, 'a>) -> Option<LhsValue<'a>> {
    let a = args.next().expect("opt2 arg 0");
    let i = match args.next().expect("opt2 arg 1") {
        Ok(LhsValue::Int(i)) => i,
        _ => panic!("opt2: arg 1"),
    };
    let s = match args.next().expect("opt2 arg 2") {
        Ok(LhsValue::Bytes(b)) => b.to_vec(),
        Err(_) => b"?".to_vec(),
        _ => panic!("opt2: arg 2"),
    };
    assert!(args.next().is_none(), "opt2: too many args");
    let mut out = match a {
        Ok(v) => bytes_of(v),
        Err(_) => b"!".to_vec(),
    };
    out.push(b'|');
    out.extend_from_slice(i.to_string().as_bytes());
    out.push(b'|');
    out.extend_from_slice(&s);
    Some(LhsValue::Bytes(out.into()))
}

fn f_dropempty<'a>(args: FunctionArgs<'_, 'a>) -> Option<LhsValue<'a>> {
    match args.next()? {
        Ok(v) => {
            let b = bytes_of(v);
            if b.is_empty() { None } else { Some(LhsValue::Bytes(b.into())) }
        }
        Err(_) => None,
    }
}

fn f_alen<'a>(args: FunctionArgs<'_, 'a>) -> Option<LhsValue<'a>> {
    match args.next()? {
        Ok(LhsValue::Array(a)) => Some(LhsValue::Int(a.len() as i64)),
        Ok(_) => panic!("alen: expected array"),
        Err(_) => Some(LhsValue::Int(-1)),
    }
}

fn f_addlit<'a>(args: FunctionArgs<'_, 'a>) -> Option<LhsValue<'a>> {
    let a = args.next()?;
    let b = match args.next()? {
        Ok(LhsValue::Int(b)) => b,
        _ => panic!("addlit: arg 1"),
    };
    match a {
        Ok(LhsValue::Int(a)) => Some(LhsValue::Int(a.wrapping_add(b))),
        Ok(_) => panic!("addlit: arg 0"),
        Err(_) => Some(LhsValue::Int(b)),
    }
}

fn f_b2i<'a>(args: FunctionArgs<'_, 'a>) -> Option<LhsValue<'a>> {
    match args.next()? {
        Ok(LhsValue::Bool(b)) => Some(LhsValue::Int(b as i64)),
        Ok(_) => panic!("b2i: expected bool"),
        Err(_) => None,
    }
}

/// `len2(x, extra = "")`: Bytes -> Int with a second (optional, field-or-literal) argument:
/// the only harness function whose return type differs from its mapped element type AND that
/// takes extra arguments (so `len2(xs[*], lower(y))` takes the memoised map-each route and an
/// absent `xs` must still be tagged `Array(Int)`).
fn f_len2<'a>(args: FunctionArgs<'_, 'a>) -> Option<LhsValue<'a>> {
    let a = match args.next().expect("len2 arg 0") {
        Ok(LhsValue::Bytes(b)) => b.len() as i64,
        Ok(_) => panic!("len2: arg 0"),
        Err(_) => return None,
    };
    let b = match args.next().expect("len2 arg 1") {
        Ok(LhsValue::Bytes(b)) => b.len() as i64,
        Ok(_) => panic!("len2: arg 1"),
        Err(_) => -1,
    };
    assert!(args.next().is_none(), "len2: too many args");
    Some(LhsValue::Int(a + b))
}

/// `nil0()`: no parameters at all, returns `true`
fn f_nil0<'a>(args: FunctionArgs<'_, 'a>) -> Option<LhsValue<'a>> {
    assert!(args.next().is_none(), "nil0: too many args");
    Some(LhsValue::Bool(true))
}

/// `when(cond, x)`: `x` if `cond` is true, nothing otherwise (a comparison as FIRST argument
/// and a plain field path as a LATER one)
fn f_when<'a>(args: FunctionArgs<'_, 'a>) -> Option<LhsValue<'a>> {
    let c = match args.next().expect("when arg 0") {
        Ok(LhsValue::Bool(b)) => b,
        Ok(_) => panic!("when: arg 0"),
        Err(_) => return None,
    };
    let x = args.next().expect("when arg 1");
    assert!(args.next().is_none(), "when: too many args");
    if c { x.ok() } else { None }
}

pub const SIMPLE_NAMES: [&str; 13] =
    ["echo", "lower", "len", "first", "opt2", "dropempty", "alen", "addlit", "b2i", "blen", "len2", "nil0", "when"];

pub fn simple(fname: &str) -> Option<SimpleFunctionDefinition> {
    let bytes_arr = Type::Array(Type::Bytes.into());
    let bool_arr = Type::Array(Type::Bool.into());
    let (params, opt_params, ret, imp): (Vec<_>, Vec<_>, Type, for<'i, 'a> fn(FunctionArgs<'i, 'a>) -> Option<LhsValue<'a>>) =
        match fname {
            "echo" => (vec![p(K::Both, Type::Bytes)], vec![], Type::Bytes, f_echo),
            "lower" => (vec![p(K::Field, Type::Bytes)], vec![], Type::Bytes, f_lower),
            "len" => (vec![p(K::Field, Type::Bytes)], vec![], Type::Int, f_len),
            "first" => (vec![p(K::Field, bytes_arr)], vec![], Type::Bytes, f_first),
            "opt2" => (
                vec![p(K::Field, Type::Bytes)],
                vec![
                    SimpleFunctionOptParam { arg_kind: K::Literal, default_value: LhsValue::Int(10) },
                    SimpleFunctionOptParam {
                        arg_kind: K::Both,
                        default_value: LhsValue::Bytes(b"dflt".to_vec().into()),
                    },
                ],
                Type::Bytes,
                f_opt2,
            ),
            "dropempty" => (vec![p(K::Field, Type::Bytes)], vec![], Type::Bytes, f_dropempty),
            "alen" => (vec![p(K::Field, bytes_arr)], vec![], Type::Int, f_alen),
            "addlit" => (
                vec![p(K::Field, Type::Int), p(K::Literal, Type::Int)],
                vec![],
                Type::Int,
                f_addlit,
            ),
            "b2i" => (vec![p(K::Field, Type::Bool)], vec![], Type::Int, f_b2i),
            "blen" => (vec![p(K::Field, bool_arr)], vec![], Type::Int, f_alen),
            "nil0" => (vec![], vec![], Type::Bool, f_nil0),
            "when" => (vec![p(K::Field, Type::Bool), p(K::Field, Type::Bytes)], vec![], Type::Bytes, f_when),
            "len2" => (
                vec![p(K::Field, Type::Bytes)],
                vec![SimpleFunctionOptParam { arg_kind: K::Both, default_value: LhsValue::Bytes(Vec::new().into()) }],
                Type::Int,
                f_len2,
            ),
            _ => return None,
        };
    Some(SimpleFunctionDefinition {
        params,
        opt_params,
        return_type: ret,
        implementation: SimpleFunctionImpl::new(imp),
    })
}

/// `ctxfn`: a definition with a per-call context (a counter) that is incremented in every
/// `check_param` through each mutable accessor in turn, read in `return_type`, and consumed
/// in `compile`; the call returns the counter value `compile` received.
#[derive(Debug)]
pub struct CtxFn;

#[derive(Clone, Debug, PartialEq)]
pub struct Counter(pub i64);

impl FunctionDefinition for CtxFn {
    fn context(&self) -> Option<FunctionDefinitionContext> {
        Some(FunctionDefinitionContext::new(Counter(0)))
    }

    fn check_param(
        &self,
        _: &ParserSettings,
        params: &mut dyn ExactSizeIterator<Item = FunctionParam<'_>>,
        next_param: &FunctionParam<'_>,
        ctx: Option<&mut FunctionDefinitionContext>,
    ) -> Result<(), FunctionParamError> {
        if next_param.get_type() != Type::Bytes {
            return Err(FunctionParamError::TypeMismatch(TypeMismatchError {
                expected: Type::Bytes.into(),
                actual: next_param.get_type(),
            }));
        }
        let index = params.len();
        if let Some(ctx) = ctx {
            // alternate between the two mutable accessors
            let slot = if index % 2 == 0 {
                ctx.as_any_mut().downcast_mut::<Counter>()
            } else {
                ctx.downcast_mut::<Counter>()
            };
            if let Some(c) = slot {
                c.0 += 1;
            }
        }
        Ok(())
    }

    fn return_type(
        &self,
        _: &mut dyn ExactSizeIterator<Item = FunctionParam<'_>>,
        _: Option<&FunctionDefinitionContext>,
    ) -> Type {
        Type::Int
    }

    fn arg_count(&self) -> (usize, Option<usize>) {
        (1, None)
    }

    fn compile(
        &self,
        params: &mut dyn ExactSizeIterator<Item = FunctionParam<'_>>,
        ctx: Option<FunctionDefinitionContext>,
    ) -> CompiledFunction {
        let n = params.len();
        let seen: i64 = match ctx {
            None => -1,
            Some(ctx) => {
                // the two read accessors must agree with each other ...
                let r1 = ctx.as_any_ref().downcast_ref::<Counter>().map(|c| c.0);
                let r2 = ctx.downcast_ref::<Counter>().map(|c| c.0);
                // ... and with the consuming ones
                let owned = if n % 2 == 0 {
                    ctx.into_any().downcast::<Counter>().ok().map(|c| c.0)
                } else {
                    ctx.downcast::<Counter>().ok().map(|c| c.0)
                };
                match (r1, r2, owned) {
                    (Some(a), Some(b), Some(c)) if a == b && b == c => a,
                    _ => -2,
                }
            }
        };
        Box::new(move |_args| Some(LhsValue::Int(seen)))
    }
}

/// list matcher holding named sets of values (stored in codec form)
#[derive(Debug, Default)]
pub struct SetsList;

#[derive(Clone, Debug, Default, PartialEq, Eq, Serialize, Deserialize)]
pub struct SetsMatcher {
    pub sets: BTreeMap<String, Vec<String>>,
}

thread_local! {
    /// every (list name, value) query made on this thread, for the record
    pub static QUERIES: std::cell::RefCell<Vec<(String, String)>> = const { std::cell::RefCell::new(Vec::new()) };
}

impl ListDefinition for SetsList {
    fn deserialize_matcher<'de>(
        &self,
        _: Type,
        deserializer: &mut dyn erased_serde::Deserializer<'de>,
    ) -> Result<Box<dyn ListMatcher>, erased_serde::Error> {
        let m = erased_serde::deserialize::<SetsMatcher>(deserializer)?;
        Ok(Box::new(m))
    }

    fn new_matcher(&self) -> Box<dyn ListMatcher> {
        Box::new(SetsMatcher::default())
    }
}

impl ListMatcher for SetsMatcher {
    fn match_value(&self, list_name: &str, val: &LhsValue<'_>) -> bool {
        let v = val_str(val);
        QUERIES.with(|q| {
            let mut q = q.borrow_mut();
            if q.len() < 1000 {
                q.push((list_name.to_string(), v.clone()));
            }
        });
        self.sets.get(list_name).map_or(false, |s| s.iter().any(|x| *x == v))
    }

    fn clear(&mut self) {
        self.sets.clear();
    }
}

#[allow(dead_code)]
pub fn empty_bytes_array() -> Array<'static> {
    Array::new(Type::Bytes)
}
