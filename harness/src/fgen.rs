//! Grammar-directed generator of (mostly) well-typed filters, value expressions, schemes and
//! contexts.  The generator records which fields it wrote (ground truth for uses()).
use crate::core::{CtxSpec, Fld, SchemeSpec};
use crate::rng::Rng;
use std::collections::BTreeSet;
use std::net::{IpAddr, Ipv4Addr, Ipv6Addr};
use wirefilter::{Array, LhsValue, Map, Type};

pub const INT_POOL: [i64; 12] = [i64::MIN, i64::MAX, 0, -1, 1, 2, 5, 7, 8, 255, 256, -256];
pub const BYTES_POOL: [&[u8]; 15] = [
    b"", b"a", b"ab", b"abc", b"b", b"AB", b"\xff", b"a\x00b", b"xyz", b"dflt", b"a b",
    // non-ASCII text, and text that looks like a value of another type
    b"caf\xc3\xa9", b"\xe6\x97\xa5\xe6\x9c\xac", b"10.0.0.1", b"::1",
];
pub const KEY_POOL: [&str; 5] = ["", "a", "b", "k", "\u{e9}"];
pub const LIST_NAMES: [&str; 4] = ["l1", "a.b", "x_9", "0"];

pub fn ip_pool() -> Vec<IpAddr> {
    vec![
        IpAddr::V4(Ipv4Addr::new(0, 0, 0, 0)),
        IpAddr::V4(Ipv4Addr::new(10, 0, 0, 1)),
        IpAddr::V4(Ipv4Addr::new(10, 0, 0, 7)),
        IpAddr::V4(Ipv4Addr::new(255, 255, 255, 255)),
        IpAddr::V6(Ipv6Addr::from(0u128)),
        IpAddr::V6(Ipv6Addr::from(1u128)),
        IpAddr::V6(Ipv6Addr::from(0xffff_0a00_0001u128)),
        IpAddr::V6("2001:db8::1".parse().unwrap()),
        IpAddr::V6(Ipv6Addr::from(u128::MAX)),
    ]
}

fn prim_name(t: &Type) -> &'static str {
    match t {
        Type::Bool => "b",
        Type::Int => "i",
        Type::Ip => "p",
        Type::Bytes => "y",
        _ => unreachable!(),
    }
}

fn layers_of(t: &Type) -> (Vec<bool>, Type) {
    // (layer kinds outermost first: true = map, false = array; primitive)
    match t {
        Type::Array(e) => {
            let (mut l, p) = layers_of(&Type::from(*e));
            l.insert(0, false);
            (l, p)
        }
        Type::Map(e) => {
            let (mut l, p) = layers_of(&Type::from(*e));
            l.insert(0, true);
            (l, p)
        }
        p => (vec![], *p),
    }
}

fn wrap(prim: Type, layers: &str) -> Type {
    // layers outermost first: 'a' / 'm'
    let mut t = prim;
    for c in layers.chars().rev() {
        t = if c == 'a' { Type::Array(t.into()) } else { Type::Map(t.into()) };
    }
    t
}

/// The canonical rich scheme: for each primitive P: mandatory `P`, optional `oP`, and
/// containers named by their layer string (`aP`, `mP`, `aaP`, `amP`, `maP`, `mmP`, optional
/// `oaP`, depth-3 `aaaP`/`mamP`), plus dotted names, the function family and lists.
pub fn rich_scheme(rng: &mut Rng, max_depth: u16) -> SchemeSpec {
    let mut fields = Vec::new();
    for prim in [Type::Bool, Type::Int, Type::Ip, Type::Bytes] {
        let n = prim_name(&prim);
        fields.push(Fld { name: n.to_string(), ty: prim, optional: false });
        fields.push(Fld { name: format!("o{n}"), ty: prim, optional: true });
        for l in ["a", "m", "aa", "am", "ma", "mm"] {
            fields.push(Fld { name: format!("{l}{n}"), ty: wrap(prim, l), optional: false });
        }
        fields.push(Fld { name: format!("oa{n}"), ty: wrap(prim, "a"), optional: true });
        fields.push(Fld { name: format!("om{n}"), ty: wrap(prim, "m"), optional: true });
        fields.push(Fld { name: format!("aaa{n}"), ty: wrap(prim, "aaa"), optional: false });
        fields.push(Fld { name: format!("mam{n}"), ty: wrap(prim, "mam"), optional: false });
    }
    fields.push(Fld { name: "http.host".into(), ty: Type::Bytes, optional: false });
    fields.push(Fld {
        name: "http.request.headers.names".into(),
        ty: wrap(Type::Bytes, "a"),
        optional: false,
    });
    fields.push(Fld { name: "tcp.port".into(), ty: Type::Int, optional: true });
    // names that begin with the word `not` (`LogicalExpr::lex_unary_op`): `notes` / `not_b` are
    // identifiers, and `es` is what `notes` used to be taken for (`not es`). Appended at the
    // END so that the indices of the fields above stay what they were.
    fields.push(Fld { name: "notes".into(), ty: Type::Bytes, optional: false });
    fields.push(Fld { name: "not_b".into(), ty: Type::Bool, optional: false });
    fields.push(Fld { name: "es".into(), ty: Type::Bytes, optional: false });
    let funcs: Vec<(String, String)> = crate::funcs::SIMPLE_NAMES
        .iter()
        .map(|n| (n.to_string(), n.to_string()))
        .chain([("concat".to_string(), "concat".to_string()), ("ctxfn".to_string(), "ctxfn".to_string())])
        .collect();
    // lists: sets on Int and Ip; Bytes gets always / never / sets depending on the seed
    let mut lists = vec![(Type::Int, 's'), (Type::Ip, 's'), (Type::Bytes, *rng.pick(&['a', 'n', 's']))];
    // registration order is immaterial for routing: shuffle
    for i in (1..lists.len()).rev() {
        let j = rng.below(i as u64 + 1) as usize;
        lists.swap(i, j);
    }
    SchemeSpec {
        fields,
        funcs,
        lists,
        nil_ne: rng.chance(2, 3),
        route: rng.below(8) as u8,
        max_depth,
        star_limit: None,
    }
}

pub fn gen_prim(rng: &mut Rng, t: &Type) -> LhsValue<'static> {
    match t {
        Type::Bool => LhsValue::Bool(rng.chance(1, 2)),
        Type::Int => {
            if rng.chance(3, 4) {
                LhsValue::Int(*rng.pick(&INT_POOL))
            } else {
                LhsValue::Int(rng.range(-20, 20))
            }
        }
        Type::Ip => LhsValue::Ip(*rng.pick(&ip_pool())),
        Type::Bytes => {
            if rng.chance(4, 5) {
                LhsValue::Bytes(rng.pick(&BYTES_POOL).to_vec().into())
            } else {
                let n = rng.below(5) as usize;
                let v: Vec<u8> = (0..n).map(|_| *rng.pick(&[b'a', b'b', b'A', 0u8, 0xff, b'*', b'\\'])).collect();
                LhsValue::Bytes(v.into())
            }
        }
        _ => unreachable!(),
    }
}

pub fn gen_val(rng: &mut Rng, t: &Type) -> LhsValue<'static> {
    match t {
        Type::Array(e) => {
            let et = Type::from(*e);
            let n = *rng.pick(&[0usize, 0, 1, 2, 2, 3, 4]);
            let items: Vec<LhsValue<'static>> = (0..n).map(|_| gen_val(rng, &et)).collect();
            LhsValue::Array(Array::try_from_vec(et, items).unwrap())
        }
        Type::Map(e) => {
            let et = Type::from(*e);
            let mut entries: Vec<Result<(Box<[u8]>, LhsValue<'static>), wirefilter::TypeMismatchError>> = Vec::new();
            for k in KEY_POOL.iter() {
                if rng.chance(2, 5) {
                    entries.push(Ok((k.as_bytes().to_vec().into_boxed_slice(), gen_val(rng, &et))));
                }
            }
            if rng.chance(1, 8) {
                entries.push(Ok((vec![0xffu8, 0x00].into_boxed_slice(), gen_val(rng, &et))));
            }
            LhsValue::Map(Map::try_from_iter(et, entries).unwrap())
        }
        p => gen_prim(rng, p),
    }
}

pub fn gen_ctx(rng: &mut Rng, spec: &SchemeSpec) -> CtxSpec {
    let mut values = Vec::new();
    for f in &spec.fields {
        if f.optional && rng.chance(1, 2) {
            values.push(None);
        } else {
            values.push(Some(gen_val(rng, &f.ty)));
        }
    }
    let mut sets = Vec::new();
    for (li, (ty, kind)) in spec.lists.iter().enumerate() {
        if *kind != 's' {
            continue;
        }
        for name in LIST_NAMES.iter() {
            if rng.chance(1, 2) {
                let n = rng.below(4) as usize;
                sets.push((li, name.to_string(), (0..n).map(|_| gen_prim(rng, ty)).collect()));
            }
        }
    }
    CtxSpec { values, sets }
}

#[derive(Clone, Copy, PartialEq, Eq, Debug)]
pub enum Focus {
    /// scalar fields, every operator, heavy boolean structure (C01)
    Scalar,
    /// containers, index paths, map-each, quantifiers (C02)
    Containers,
    /// function calls (C03)
    Calls,
    /// `in $list` (C17)
    Lists,
    All,
}

/// generator state for one filter
pub struct G<'a> {
    pub focus: Focus,
    pub rng: &'a mut Rng,
    pub spec: &'a SchemeSpec,
    /// fields written anywhere
    pub used: BTreeSet<usize>,
    /// fields written inside the lhs of an `in $list` comparison
    pub used_in_list: BTreeSet<usize>,
    /// use exotic layout / aliases
    pub fancy: bool,
    /// allow operators whose semantics live in third-party engines (regex)
    pub allow_regex: bool,
    in_list_lhs: bool,
    pub stats: Vec<&'static str>,
}

impl<'a> G<'a> {
    pub fn new(rng: &'a mut Rng, spec: &'a SchemeSpec) -> Self {
        G {
            focus: Focus::All,
            rng,
            spec,
            used: BTreeSet::new(),
            used_in_list: BTreeSet::new(),
            fancy: true,
            allow_regex: true,
            in_list_lhs: false,
            stats: Vec::new(),
        }
    }

    pub fn ws(&mut self) -> String {
        if !self.fancy || self.rng.chance(3, 4) {
            " ".into()
        } else {
            (*self.rng.pick(&["  ", "\n", "\r\n", " \n ", "   "])).to_string()
        }
    }

    /// optional whitespace (positions where the grammar skips spaces but needs none)
    pub fn ows(&mut self) -> String {
        if !self.fancy || self.rng.chance(2, 3) { String::new() } else { self.ws() }
    }

    fn alias<'b>(&mut self, names: &[&'b str]) -> &'b str {
        if self.fancy { names[self.rng.below(names.len() as u64) as usize] } else { names[0] }
    }

    fn note_field(&mut self, idx: usize) {
        self.used.insert(idx);
        if self.in_list_lhs {
            self.used_in_list.insert(idx);
        }
    }

    // ---------------------------------------------------------------- literals
    pub fn int_lit(&mut self, v: i64) -> String {
        if v >= 0 && self.rng.chance(1, 4) {
            format!("0x{v:x}")
        } else if v >= 0 && self.rng.chance(1, 5) {
            format!("0{v:o}")
        } else {
            v.to_string()
        }
    }

    pub fn some_int(&mut self) -> i64 {
        if self.rng.chance(3, 4) { *self.rng.pick(&INT_POOL) } else { self.rng.range(-20, 20) }
    }

    pub fn bytes_lit(&mut self, b: &[u8]) -> String {
        let style = self.rng.below(6);
        let printable = b.iter().all(|c| (0x20..0x7f).contains(c));
        if style == 0 && b.len() >= 2 {
            let sep = *self.rng.pick(&[":", "-", "."]);
            // a `.`-separated literal followed by `..` would be ambiguous nowhere we use it
            b.iter().map(|x| format!("{x:02x}")).collect::<Vec<_>>().join(sep)
        } else if style == 1 && printable && !b.contains(&b'"') {
            format!("r\"{}\"", String::from_utf8_lossy(b))
        } else if style == 2 && printable {
            let s = String::from_utf8_lossy(b).to_string();
            let mut k = 1;
            while s.contains(&format!("\"{}", "#".repeat(k))) {
                k += 1;
            }
            format!("r{h}\"{s}\"{h}", h = "#".repeat(k))
        } else if let (true, Ok(text)) = (style >= 3 && !b.is_ascii(), std::str::from_utf8(b)) {
            // valid non-ASCII UTF-8 typed directly in the source
            if style == 3 && !text.contains('"') {
                format!("r\"{text}\"")
            } else {
                format!("\"{}\"", text.replace('\\', "\\\\").replace('"', "\\\""))
            }
        } else {
            let mut t = String::from("\"");
            for &c in b {
                if c == b'"' || c == b'\\' {
                    t.push('\\');
                    t.push(c as char);
                } else if (0x20..0x7f).contains(&c) && !self.rng.chance(1, 10) {
                    t.push(c as char);
                } else if self.rng.chance(1, 2) {
                    t.push_str(&format!("\\x{c:02x}"));
                } else {
                    t.push_str(&format!("\\{c:03o}"));
                }
            }
            t.push('"');
            t
        }
    }

    pub fn some_bytes(&mut self) -> Vec<u8> {
        self.rng.pick(&BYTES_POOL).to_vec()
    }

    pub fn some_ip(&mut self) -> IpAddr {
        *self.rng.pick(&ip_pool())
    }

    fn int_items(&mut self) -> String {
        let n = self.rng.below(4);
        let mut items = Vec::new();
        for _ in 0..n {
            let a = self.some_int();
            if self.rng.chance(1, 2) {
                items.push(self.int_lit(a));
            } else {
                let b = self.some_int();
                let (lo, hi) = if a <= b { (a, b) } else { (b, a) };
                items.push(format!("{}..{}", self.int_lit(lo), self.int_lit(hi)));
            }
        }
        format!("{{{}}}", items.join(&self.ws()))
    }

    fn ip_items(&mut self) -> String {
        let n = self.rng.below(4);
        let mut items = Vec::new();
        for _ in 0..n {
            let a = self.some_ip();
            match self.rng.below(3) {
                0 => items.push(a.to_string()),
                1 => {
                    let b = self.some_ip();
                    match (a, b) {
                        (IpAddr::V4(x), IpAddr::V4(y)) => {
                            let (lo, hi) = if x <= y { (x, y) } else { (y, x) };
                            items.push(format!("{lo}..{hi}"));
                        }
                        (IpAddr::V6(x), IpAddr::V6(y)) => {
                            let (lo, hi) = if x <= y { (x, y) } else { (y, x) };
                            items.push(format!("{lo}..{hi}"));
                        }
                        _ => items.push(a.to_string()),
                    }
                }
                _ => match a {
                    IpAddr::V4(x) => {
                        let len = *self.rng.pick(&[0u32, 8, 24, 29, 32]);
                        let m = if len == 0 { 0 } else { u32::MAX << (32 - len) };
                        items.push(format!("{}/{len}", Ipv4Addr::from(u32::from(x) & m)));
                    }
                    IpAddr::V6(x) => {
                        let len = *self.rng.pick(&[0u32, 32, 64, 96, 128]);
                        let m = if len == 0 { 0 } else { u128::MAX << (128 - len) };
                        items.push(format!("{}/{len}", Ipv6Addr::from(u128::from(x) & m)));
                    }
                },
            }
        }
        format!("{{{}}}", items.join(&self.ws()))
    }

    fn bytes_items(&mut self) -> String {
        let n = self.rng.below(4);
        let items: Vec<String> = (0..n)
            .map(|_| {
                let b = self.some_bytes();
                self.bytes_lit(&b)
            })
            .collect();
        format!("{{{}}}", items.join(&self.ws()))
    }

    // ---------------------------------------------------------------- paths
    /// candidate fields whose primitive is `prim` and whose layer count is in `lo..=hi`
    fn fields_of(&self, prim: Type, lo: usize, hi: usize) -> Vec<usize> {
        self.spec
            .fields
            .iter()
            .enumerate()
            .filter(|(_, f)| {
                let (l, p) = layers_of(&f.ty);
                p == prim && l.len() >= lo && l.len() <= hi
            })
            .map(|(i, _)| i)
            .collect()
    }

    fn index_for(&mut self, is_map: bool, each: bool) -> String {
        let a = self.ows();
        let b = self.ows();
        let inner = if each {
            "*".to_string()
        } else if is_map {
            let k = *self.rng.pick(&KEY_POOL);
            if k == "\u{e9}" && self.rng.chance(1, 2) { "\"\\xc3\\xa9\"".to_string() } else { format!("\"{k}\"") }
        } else {
            let n = *self.rng.pick(&[0u64, 0, 1, 1, 2, 3, 4294967295]);
            if self.rng.chance(1, 6) { format!("0x{n:x}") } else { n.to_string() }
        };
        format!("[{a}{inner}{b}]")
    }

    /// A field path whose result type is `target` (a primitive or a container of one),
    /// with exactly... `eaches`: None = no `[*]`, Some(true) = at least one `[*]`.
    /// Returns (text, number of [*]).
    pub fn path_to(&mut self, prim: Type, keep_layers: usize, want_each: bool) -> Option<(String, usize)> {
        let lo = keep_layers + if want_each { 1 } else { 0 };
        let hi = if self.focus == Focus::Scalar { lo } else { lo + 3 };
        let cands = self.fields_of(prim, lo, hi);
        if cands.is_empty() {
            return None;
        }
        let fi = *self.rng.pick(&cands);
        self.note_field(fi);
        let f = self.spec.fields[fi].clone();
        let (layers, _) = layers_of(&f.ty);
        let n_index = layers.len() - keep_layers;
        let mut text = f.name.clone();
        let mut eaches = 0;
        // choose which index positions are [*]
        let mut each_pos: Vec<bool> = (0..n_index).map(|_| want_each && self.rng.chance(1, 2)).collect();
        if want_each && !each_pos.iter().any(|x| *x) {
            let k = self.rng.below(n_index as u64) as usize;
            each_pos[k] = true;
        }
        for (k, is_map) in layers.iter().take(n_index).enumerate() {
            if each_pos[k] {
                eaches += 1;
            }
            text.push_str(&self.index_for(*is_map, each_pos[k]));
        }
        Some((text, eaches))
    }

    // ---------------------------------------------------------------- comparisons
    fn ord_op(&mut self) -> &'static str {
        let (a, b) = *self.rng.pick(&[("==", "eq"), ("!=", "ne"), (">=", "ge"), ("<=", "le"), (">", "gt"), ("<", "lt")]);
        if self.fancy && self.rng.chance(1, 2) { b } else { a }
    }

    /// operator + rhs for a left-hand side of primitive type `prim`
    fn op_rhs(&mut self, prim: Type) -> String {
        let w1 = self.ws();
        let w2 = self.ws();
        if self.focus == Focus::Lists && self.has_list(prim) && self.rng.chance(1, 2) {
            return self.in_list();
        }
        match prim {
            Type::Int => match self.rng.below(10) {
                0 | 1 => {
                    let v = self.some_int();
                    format!("{w1}{}{w2}{}", self.alias(&["&", "bitwise_and"]), self.int_lit(v))
                }
                2 | 3 => format!("{w1}in{w2}{}", self.int_items()),
                4 if self.has_list(Type::Int) => self.in_list(),
                _ => {
                    let v = self.some_int();
                    format!("{w1}{}{w2}{}", self.ord_op(), self.int_lit(v))
                }
            },
            Type::Ip => match self.rng.below(8) {
                0 | 1 => format!("{w1}in{w2}{}", self.ip_items()),
                2 if self.has_list(Type::Ip) => self.in_list(),
                _ => {
                    let v = self.some_ip();
                    format!("{w1}{}{w2}{v}", self.ord_op())
                }
            },
            Type::Bytes => match self.rng.below(14) {
                0 | 1 => {
                    let b = self.some_bytes();
                    format!("{w1}contains{w2}{}", self.bytes_lit(&b))
                }
                2 => format!("{w1}in{w2}{}", self.bytes_items()),
                3 if self.has_list(Type::Bytes) => self.in_list(),
                4 | 5 => {
                    let pat = *self.rng.pick(&["*", "a*", "*b", "a*c", "A*", "\\*", "ab", "*a*b*", "a\\\\b", "?b"]);
                    let op = *self.rng.pick(&["wildcard", "strict wildcard"]);
                    let lit = if self.rng.chance(1, 2) && !pat.contains('\\') {
                        format!("r\"{pat}\"")
                    } else {
                        format!("\"{}\"", pat.replace('\\', "\\\\"))
                    };
                    format!("{w1}{op}{w2}{lit}")
                }
                6 if self.allow_regex => {
                    let pat = *self.rng.pick(&["a", "ab", "a.c", "b", ".", "xyz", "A"]);
                    let op = self.alias(&["matches", "~"]);
                    if self.rng.chance(1, 2) { format!("{w1}{op}{w2}\"{pat}\"") } else { format!("{w1}{op}{w2}r\"{pat}\"") }
                }
                _ => {
                    let b = self.some_bytes();
                    format!("{w1}{}{w2}{}", self.ord_op(), self.bytes_lit(&b))
                }
            },
            _ => String::new(),
        }
    }

    fn has_list(&self, t: Type) -> bool {
        self.spec.lists.iter().any(|(ty, _)| *ty == t)
    }

    fn in_list(&mut self) -> String {
        // the lhs just written belongs to a list comparison: the caller marks it
        let w1 = self.ws();
        let w2 = self.ws();
        let name = if self.rng.chance(1, 14) {
            *self.rng.pick(&["A", "aB", "l1.Z", ".a", "a.", "a-b", "", "\u{e9}"])
        } else {
            *self.rng.pick(&LIST_NAMES)
        };
        format!("{w1}in{w2}${name}")
    }

    /// a comparison over a field path (or function call); `vec` = must be a boolean array
    pub fn comparison(&mut self, vec: bool, depth: u32) -> String {
        // choose the primitive
        let prim = *self.rng.pick(&[Type::Int, Type::Int, Type::Bytes, Type::Bytes, Type::Ip, Type::Bool]);
        // functions as left-hand sides
        let call_num = match self.focus {
            Focus::Calls => 3,
            Focus::Scalar => 0,
            _ => 1,
        };
        if depth > 0 && self.rng.chance(call_num, 5) {
            if let Some(t) = self.call_cmp(vec, depth) {
                return t;
            }
        }
        if prim == Type::Bool {
            if vec && self.rng.chance(1, 2) {
                // bare container of booleans: IsTrue over its elements
                if let Some((p, _)) = self.path_to(Type::Bool, 1, false) {
                    // only arrays may be combined / quantified; maps of bool are accepted by
                    // the parser as IsTrue too but typed Map(Bool)
                    return p;
                }
            }
            if let Some((p, _)) = self.path_to(Type::Bool, 0, vec) {
                return p;
            }
        }
        let prim = if prim == Type::Bool { Type::Int } else { prim };
        // remember fields used by the lhs in case the operator turns out to be `in $list`
        let before = self.used.clone();
        let (lhs, _) = self.path_to(prim, 0, vec).expect("rich scheme has every path kind");
        let rhs = self.op_rhs(prim);
        if rhs.contains('$') {
            let new: Vec<usize> = self.used.difference(&before).cloned().collect();
            // fields already used elsewhere and re-used here also count
            for i in new {
                self.used_in_list.insert(i);
            }
            // conservative: recompute by scanning the lhs text for the field name
            for (i, f) in self.spec.fields.iter().enumerate() {
                if lhs.starts_with(&f.name)
                    && !lhs[f.name.len()..].starts_with(|c: char| c.is_ascii_alphanumeric() || c == '_' || c == '.')
                {
                    self.used_in_list.insert(i);
                }
            }
        }
        format!("{lhs}{rhs}")
    }

    /// comparison whose lhs is a function call
    fn call_cmp(&mut self, vec: bool, depth: u32) -> Option<String> {
        let o = self.ows();
        let o2 = self.ows();
        if !vec && self.has_list(Type::Bytes) && self.rng.chance(1, 10) {
            // a list comparison NESTED in the left-hand side of another one: the inner one is
            // complete before the later argument (a plain field path) is reached
            //   when(<int path> in $l, <bytes path>) in $m
            let inner_prim = *self.rng.pick(&[Type::Int, Type::Ip, Type::Bytes]);
            if self.has_list(inner_prim) {
                let (a, _) = self.path_to(inner_prim, 0, false)?;
                let inner_list = self.in_list();
                let (b, _) = self.path_to(Type::Bytes, 0, false)?;
                let outer_list = self.in_list();
                for lhs in [&a, &b] {
                    for (i, f) in self.spec.fields.iter().enumerate() {
                        if lhs.starts_with(&f.name)
                            && !lhs[f.name.len()..].starts_with(|c: char| c.is_ascii_alphanumeric() || c == '_' || c == '.')
                        {
                            self.used_in_list.insert(i);
                        }
                    }
                }
                self.stats.push("call.when.nested-lists");
                return Some(format!("when({o}{a}{inner_list},{}{b}{o2}){outer_list}", self.ows()));
            }
        }
        if vec && self.rng.chance(1, 3) {
            // mapped call with extra arguments: a literal, and a nested call (re-evaluating it
            // per element is "expensive", so the engine memoises) over a possibly absent field
            let (arg, _) = self.path_to(Type::Bytes, 0, true)?;
            let v = self.some_int();
            let pick = self.rng.below(3);
            let extra = match pick {
                0 => "lower(oy)".to_string(),
                1 => "oy".to_string(),
                // `path_to` records the field it picks
                _ => format!("lower({})", self.path_to(Type::Bytes, 0, false)?.0),
            };
            if pick < 2 {
                if let Some(i) = self.spec.field_index("oy") {
                    self.note_field(i);
                }
            }
            let rhs = self.op_rhs(Type::Bytes);
            if self.rng.chance(1, 2) {
                // return type (Int) differs from the mapped element type (Bytes)
                let rhs = self.op_rhs(Type::Int);
                self.stats.push("call.mapped.extra.len2");
                return Some(format!("len2({o}{arg},{}{extra}{o2})[*]{rhs}", self.ows()));
            }
            self.stats.push("call.mapped.extra");
            return Some(format!("opt2({o}{arg},{}{},{}{extra}{o2})[*]{rhs}", self.ows(), self.int_lit(v), self.ows()));
        }
        if vec {
            // mapped calls produce arrays: f(x[*])[*] op rhs
            let (arg, _) = self.path_to(Type::Bytes, 0, true)?;
            let (f, prim) = *self.rng.pick(&[("len", Type::Int), ("lower", Type::Bytes), ("dropempty", Type::Bytes), ("echo", Type::Bytes)]);
            let rhs = self.op_rhs(prim);
            self.stats.push("call.mapped.vec");
            return Some(format!("{f}({o}{arg}{o2})[*]{rhs}"));
        }
        let mut choice = self.rng.below(14);
        if choice == 10 && !(self.focus == Focus::Calls || self.focus == Focus::All) {
            choice = 0;
        }
        let t = match choice {
            0 => {
                let (arg, _) = self.path_to(Type::Bytes, 0, false)?;
                let rhs = self.op_rhs(Type::Int);
                format!("len({o}{arg}{o2}){rhs}")
            }
            1 => {
                let (arg, _) = self.path_to(Type::Bytes, 0, false)?;
                let rhs = self.op_rhs(Type::Bytes);
                format!("lower({o}{arg}{o2}){rhs}")
            }
            2 => {
                let (arg, _) = self.path_to(Type::Bytes, 1, false)?;
                let rhs = self.op_rhs(Type::Bytes);
                format!("first({o}{arg}{o2}){rhs}")
            }
            3 => {
                let (arg, _) = self.path_to(Type::Bytes, 0, false)?;
                let extra = match self.rng.below(3) {
                    0 => String::new(),
                    1 => {
                        let v = self.some_int();
                        format!(",{}{}", self.ows(), self.int_lit(v))
                    }
                    _ => {
                        let v = self.some_int();
                        let b = self.some_bytes();
                        format!(",{}{}{},{}", self.ows(), self.int_lit(v), self.ows(), self.bytes_lit(&b))
                    }
                };
                let b = self.some_bytes();
                let lit = self.bytes_lit(&b);
                self.stats.push("call.opt2");
                format!("opt2({o}{arg}{extra}{o2}){}=={}{lit}", self.ws(), self.ws())
            }
            4 => {
                // mapped call indexed / counted
                let (arg, _) = self.path_to(Type::Bytes, 0, true)?;
                let n = self.rng.below(3);
                let rhs = self.op_rhs(Type::Int);
                self.stats.push("call.mapped.indexed");
                format!("len({o}{arg}{o2})[{n}]{rhs}")
            }
            5 => {
                let (a1, _) = self.path_to(Type::Bytes, 0, false)?;
                let b = self.some_bytes();
                let a2 = if self.rng.chance(1, 2) { self.bytes_lit(&b) } else { self.path_to(Type::Bytes, 0, false)?.0 };
                let rhs = self.op_rhs(Type::Bytes);
                self.stats.push("call.concat.bytes");
                format!("concat({o}{a1},{}{a2}{o2}){rhs}", self.ows())
            }
            6 => {
                let (a1, _) = self.path_to(Type::Bytes, 1, false)?;
                let (a2, _) = self.path_to(Type::Bytes, 1, false)?;
                let rhs = self.op_rhs(Type::Int);
                self.stats.push("call.concat.array");
                format!("alen(concat({o}{a1},{}{a2}{o2})){rhs}", self.ows())
            }
            7 => {
                let (arg, _) = self.path_to(Type::Int, 0, false)?;
                let v = self.some_int();
                let rhs = self.op_rhs(Type::Int);
                format!("addlit({o}{arg},{}{}{o2}){rhs}", self.ows(), self.int_lit(v))
            }
            8 => {
                // logical argument coerced to a Bool value
                let inner = self.comparison(false, depth - 1);
                let rhs = self.op_rhs(Type::Int);
                self.stats.push("call.logical_arg");
                if self.rng.chance(1, 2) { format!("b2i(({o}{inner}{o2})){rhs}") } else { format!("b2i({o}{inner}{o2}){rhs}") }
            }
            9 => {
                let inner = self.comparison(true, depth - 1);
                let rhs = self.op_rhs(Type::Int);
                self.stats.push("call.logical_vec_arg");
                format!("blen({o}{inner}{o2}){rhs}")
            }
            10 => {
                let n = 1 + self.rng.below(3);
                let mut args = Vec::new();
                for _ in 0..n {
                    if self.rng.chance(1, 3) {
                        let b = self.some_bytes();
                        args.push(self.bytes_lit(&b));
                    } else {
                        args.push(self.path_to(Type::Bytes, 0, false)?.0);
                    }
                }
                let v = self.rng.below(5) as i64;
                self.stats.push("call.ctxfn");
                format!("ctxfn({o}{}{o2}){}=={}{v}", args.join(&format!(",{}", self.ows())), self.ws(), self.ws())
            }
            12 | 13 => {
                // a logical argument TWO calls deep: the inner call (which owns the logical
                // argument) is itself a plain value argument of the outer call
                //   addlit(b2i(<cmp>), 3) op rhs        len(when(<cmp>, <bytes path>)) op rhs
                // half of the time <cmp> is a list comparison, so that `uses_list` has to look
                // through a value argument to find it
                let inner = self.nested_logical_arg(depth - 1)?;
                if choice == 12 {
                    let v = self.some_int();
                    let rhs = self.op_rhs(Type::Int);
                    self.stats.push("call.logical_in_value_call.addlit");
                    format!("addlit({o}b2i({inner}),{}{}{o2}){rhs}", self.ows(), self.int_lit(v))
                } else {
                    let (b, _) = self.path_to(Type::Bytes, 0, false)?;
                    let rhs = self.op_rhs(Type::Int);
                    self.stats.push("call.logical_in_value_call.when");
                    format!("len({o}when({inner},{}{b}){o2}){rhs}", self.ows())
                }
            }
            _ => {
                // nested call
                let (arg, _) = self.path_to(Type::Bytes, 0, false)?;
                let rhs = self.op_rhs(Type::Int);
                self.stats.push("call.nested");
                format!("len({o}lower({arg}){o2}){rhs}")
            }
        };
        Some(t)
    }

    /// the logical argument of the inner call of `call_cmp` arms 12/13
    fn nested_logical_arg(&mut self, depth: u32) -> Option<String> {
        let prim = *self.rng.pick(&[Type::Int, Type::Ip, Type::Bytes]);
        if self.has_list(prim) && self.rng.chance(1, 2) {
            let (a, _) = self.path_to(prim, 0, false)?;
            let list = self.in_list();
            for (i, f) in self.spec.fields.iter().enumerate() {
                if a.starts_with(&f.name)
                    && !a[f.name.len()..].starts_with(|c: char| c.is_ascii_alphanumeric() || c == '_' || c == '.')
                {
                    self.used_in_list.insert(i);
                }
            }
            self.stats.push("call.logical_in_value_call.list");
            return Some(format!("{a}{list}"));
        }
        Some(self.comparison(false, depth))
    }

    // ---------------------------------------------------------------- logical structure
    fn logical_op(&mut self) -> &'static str {
        let (a, b) = *self.rng.pick(&[("and", "&&"), ("or", "||"), ("xor", "^^")]);
        if self.fancy && self.rng.chance(1, 2) { b } else { a }
    }

    /// would `not` glued to `inner` be read as a registered name (maximal dotted run)?
    fn glued_is_name(&self, inner: &str) -> bool {
        let text = format!("not{inner}");
        let end = text
            .find(|c: char| !(c.is_ascii_alphanumeric() || c == '_' || c == '.'))
            .unwrap_or(text.len());
        let run = &text[..end];
        self.spec.fields.iter().any(|f| f.name == run) || self.spec.funcs.iter().any(|(n, _)| n == run)
    }

    /// a simple (non-chain) expression of the requested shape
    fn simple(&mut self, vec: bool, depth: u32) -> String {
        let c = if depth == 0 { 0 } else { self.rng.below(10) };
        match c {
            0..=4 => self.comparison(vec, depth),
            5 | 6 => {
                let inner = self.expr(vec, depth - 1);
                format!("({}{inner}{})", self.ows(), self.ows())
            }
            7 => {
                let n = self.alias(&["not", "!"]);
                let inner = self.simple(vec, depth - 1);
                // `not` needs no space; keep one unless the inner starts with a non-identifier —
                // or, now and then, glue the word to the operand (`notb`, `notob`, `notnot_b`):
                // still the operator as long as the glued text completes no registered name
                // (`lex_unary_op`). Where it WOULD complete one (`not` + `es ..` = `notes ..`) a
                // space is kept: that text means the other field, which would falsify the
                // generator's record of the fields it wrote (`used`); the same texts are
                // produced anyway whenever the field `notes` / `not_b` itself is picked
                let sep = if n == "!" || inner.starts_with('(') {
                    self.ows()
                } else if self.fancy && self.rng.chance(1, 8) && !self.glued_is_name(&inner) {
                    self.stats.push("not.glued");
                    String::new()
                } else {
                    self.ws()
                };
                format!("{n}{sep}{inner}")
            }
            _ => {
                if vec || self.focus == Focus::Scalar {
                    self.comparison(vec, depth)
                } else {
                    let q = *self.rng.pick(&["any", "all"]);
                    let inner = self.quant_arg(depth - 1);
                    format!("{q}{}({}{inner}{})", self.ows(), self.ows(), self.ows())
                }
            }
        }
    }

    /// argument of any()/all(): a boolean array expression as a *function-style argument*
    /// (an identifier-led argument is an index expression plus at most one comparison, so
    /// chains must be parenthesised)
    fn quant_arg(&mut self, depth: u32) -> String {
        if depth > 0 && self.focus != Focus::Scalar && self.rng.chance(1, 4) {
            // a flat chain of 3..=4 boolean-array operands under ONE operator: the element-wise
            // combination must truncate to the shortest operand whatever the values are
            let n = 3 + self.rng.below(2);
            let op = self.logical_op();
            let mut t = format!("({})", self.comparison(true, 0));
            for _ in 1..n {
                let c = self.comparison(true, 0);
                t = format!("{t}{}{op}{}{c}", self.ws(), self.ws());
            }
            self.stats.push("vec.chain3");
            return t;
        }
        if depth > 0 && self.rng.chance(1, 3) {
            let a = self.simple(true, depth);
            let b = self.simple(true, depth - 1);
            let op = self.logical_op();
            // `notes…` / `not_b…` are identifiers, not the operator
            let is_not_op = a.starts_with("not") && !a.starts_with("notes") && !a.starts_with("not_b");
            let a = if a.starts_with('(') || is_not_op || a.starts_with('!') { a } else { format!("({a})") };
            format!("{a}{}{op}{}{b}", self.ws(), self.ws())
        } else if self.rng.chance(1, 6) {
            // direct Array(Bool) value
            let saved = (self.used.clone(), self.used_in_list.clone());
            if self.rng.chance(1, 3) {
                // a bare boolean-array path that has no value in many contexts, plain or in
                // (redundant) parentheses: `all` of nothing is true on either route
                let (n, txt) = *self.rng.pick(&[("oab", "oab"), ("aab", "aab[7]"), ("mab", "mab[\"zz\"]"), ("aab", "aab[4294967295]"), ("oab", "oab[*]")]);
                if let Some(i) = self.spec.field_index(n) {
                    self.note_field(i);
                    self.stats.push("quant.bare.absent-prone");
                    return match self.rng.below(3) {
                        0 => txt.to_string(),
                        1 => format!("({txt})"),
                        _ => format!("(({txt}))"),
                    };
                }
            }
            match self.path_to(Type::Bool, 1, false) {
                Some((p, _)) if !p.is_empty() && self.path_is_array(&p) => {
                    if self.rng.chance(1, 2) { format!("({p})") } else { p }
                }
                _ => {
                    // the candidate path is discarded: it was not written
                    self.used = saved.0;
                    self.used_in_list = saved.1;
                    self.comparison(true, depth)
                }
            }
        } else {
            self.comparison(true, depth)
        }
    }

    fn path_is_array(&self, p: &str) -> bool {
        // result of a keep_layers=1 path: array iff the remaining layer is an array
        let name_end = p.find('[').unwrap_or(p.len());
        let name = &p[..name_end];
        let n_idx = p.matches('[').count();
        self.spec
            .fields
            .iter()
            .find(|f| f.name == name)
            .map(|f| {
                let (l, _) = layers_of(&f.ty);
                l.get(n_idx) == Some(&false)
            })
            .unwrap_or(false)
    }

    /// expression of the requested shape: possibly a chain of 2..=5 operands mixing operators
    pub fn expr(&mut self, vec: bool, depth: u32) -> String {
        let n = if depth == 0 { 1 } else { *self.rng.pick(&[1usize, 1, 2, 2, 3, 4, 5]) };
        let mut t = self.simple(vec, depth);
        for _ in 1..n {
            let op = self.logical_op();
            let rhs = self.simple(vec, depth.saturating_sub(1));
            t = format!("{t}{}{op}{}{rhs}", self.ws(), self.ws());
        }
        t
    }

    /// a value expression (no top-level `[*]`) and nothing else
    pub fn value_expr(&mut self, depth: u32) -> String {
        let o = self.ows();
        match self.rng.below(9) {
            0 | 1 | 2 => {
                let prim = *self.rng.pick(&[Type::Int, Type::Bytes, Type::Ip, Type::Bool]);
                let keep = self.rng.below(3) as usize;
                self.path_to(prim, keep, false).map(|x| x.0).unwrap_or_else(|| "i".into())
            }
            3 => {
                let (arg, _) = self.path_to(Type::Bytes, 0, true).unwrap();
                self.stats.push("value.mapped");
                if self.rng.chance(1, 3) {
                    // mapped call with an extra argument: cheap (field / literal: inline route)
                    // or expensive (nested call: memoised route); the mapped argument may be
                    // absent, and the result type differs from the element type
                    self.stats.push("value.mapped.extra");
                    let (extra, used) = match self.rng.below(4) {
                        0 => ("lower(y)".to_string(), Some("y")),
                        1 => ("lower(oy)".to_string(), Some("oy")),
                        2 => ("oy".to_string(), Some("oy")),
                        _ => ("\"ab\"".to_string(), None),
                    };
                    if let Some(i) = used.and_then(|n| self.spec.field_index(n)) {
                        self.note_field(i);
                    }
                    // half of the time over a path that is absent in many contexts
                    let arg = if self.rng.chance(1, 2) {
                        let (n, txt) = *self.rng.pick(&[("oay", "oay[*]"), ("omy", "omy[*]"), ("aay", "aay[7][*]"), ("may", "may[\"zz\"][*]")]);
                        match self.spec.field_index(n) {
                            Some(i) => {
                                self.note_field(i);
                                txt.to_string()
                            }
                            None => arg,
                        }
                    } else {
                        arg
                    };
                    return if self.rng.chance(2, 3) {
                        format!("len2({o}{arg}, {extra})")
                    } else {
                        format!("len2({o}{arg}, {extra})[{}]", self.rng.below(3))
                    };
                }
                let f = *self.rng.pick(&["len", "lower", "dropempty"]);
                if self.rng.chance(1, 2) { format!("{f}({o}{arg})") } else { format!("{f}({o}{arg})[{}]", self.rng.below(3)) }
            }
            4 => {
                let (a1, _) = self.path_to(Type::Bytes, 1, false).unwrap();
                let (a2, _) = self.path_to(Type::Bytes, 1, false).unwrap();
                if self.rng.chance(1, 2) && self.path_is_array(&a1) && self.path_is_array(&a2) {
                    // three to five arrays, with arguments that are absent in many contexts in
                    // the middle: absent arguments are skipped, the ones after them are kept
                    self.stats.push("value.concat.many");
                    let mut args = vec![a1];
                    for _ in 0..(1 + self.rng.below(3)) {
                        let (n, txt) = *self.rng.pick(&[("oay", "oay"), ("may", "may[\"zz\"]"), ("aay", "aay[9]"), ("ay", "ay")]);
                        if let Some(i) = self.spec.field_index(n) {
                            self.note_field(i);
                            args.push(txt.to_string());
                        }
                    }
                    args.push(a2);
                    return format!("concat({o}{})", args.join(", "));
                }
                format!("concat({o}{a1}, {a2})")
            }
            5 => {
                let (a1, _) = self.path_to(Type::Bytes, 0, false).unwrap();
                let b = self.some_bytes();
                format!("concat({o}{a1}, {})", self.bytes_lit(&b))
            }
            6 => {
                let (arg, _) = self.path_to(Type::Bytes, 0, false).unwrap();
                format!("opt2({o}{arg})")
            }
            7 if depth > 0 => {
                let inner = self.comparison(true, depth - 1);
                format!("blen({o}{inner})")
            }
            _ => {
                let (arg, _) = self.path_to(Type::Bytes, 1, false).unwrap();
                format!("first({o}{arg})")
            }
        }
    }
}
