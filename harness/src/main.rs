//! Correspondence harness: runs the real wirefilter implementation on generated inputs and
//! writes (a) the same inputs as line-protocol requests for the Lean model driver and
//! (b) the implementation's canonicalised answers.
//!
//! usage: wfh <stream> <quick|thorough> <seed> <outdir>
//!        wfh replay <stream> <op line...>       (re-run one op on the implementation)
mod codec;
mod core;
mod coreops;
mod funcs;
mod fgen;
mod out;
mod rng;
mod streams;

#[derive(Clone, Copy, PartialEq, Eq, Debug)]
pub enum Tier {
    Quick,
    Thorough,
}

/// Run configuration: tier, PRNG seed, and which shard of the work this process does
/// (exhaustive enumerations take every `nshards`-th item starting at `shard`; random parts
/// derive their PRNG from `seed` and `shard`).
#[derive(Clone, Copy, Debug)]
pub struct Cfg {
    pub tier: Tier,
    pub seed: u64,
    pub shard: u64,
    pub nshards: u64,
}

impl Cfg {
    pub fn quick(&self) -> bool {
        self.tier == Tier::Quick
    }
    pub fn mine(&self, index: u64) -> bool {
        index % self.nshards == self.shard
    }
    pub fn rng(&self) -> rng::Rng {
        rng::Rng::new(self.seed.wrapping_mul(1_000_003).wrapping_add(self.shard))
    }
    /// split a count of random cases across shards
    pub fn share(&self, n: u64) -> u64 {
        n / self.nshards + if self.shard < n % self.nshards { 1 } else { 0 }
    }
}

fn main() {
    let args: Vec<String> = std::env::args().collect();
    if args.len() == 3 && args[1] == "replayfile" {
        // replay a file of core op lines on the implementation, one answer per line
        crate::core::silence_panics();
        let mut core = coreops::Core::new();
        for line in std::fs::read_to_string(&args[2]).expect("read").lines() {
            match core.apply(line) {
                Some(a) => println!("{a}"),
                None => match streams::replay_any(line) {
                    Some(a) => println!("{a}"),
                    None => println!("bad-op"),
                },
            }
        }
        return;
    }
    if args.len() >= 3 && args[1] == "replay" {
        let stream = &args[2];
        let op = args[3..].join(" ");
        match streams::replay(stream, &op) {
            Some(ans) => println!("{ans}"),
            None => {
                eprintln!("cannot replay op on stream {stream}");
                std::process::exit(2)
            }
        }
        return;
    }
    if args.len() != 5 && args.len() != 7 {
        eprintln!("usage: wfh <stream> <quick|thorough> <seed> <outdir> [<shard> <nshards>]");
        std::process::exit(2);
    }
    let tier = match args[2].as_str() {
        "quick" => Tier::Quick,
        "thorough" => Tier::Thorough,
        _ => {
            eprintln!("bad tier");
            std::process::exit(2)
        }
    };
    let seed: u64 = args[3].parse().expect("seed");
    let (shard, nshards) = if args.len() == 7 {
        (args[5].parse().expect("shard"), args[6].parse().expect("nshards"))
    } else {
        (0, 1)
    };
    let cfg = Cfg { tier, seed, shard, nshards };
    let mut out = out::Out::new();
    if !streams::run(&args[1], cfg, &mut out) {
        eprintln!("unknown stream {}", args[1]);
        std::process::exit(2);
    }
    out.write(&args[4], &args[1]).expect("write outputs");
}
