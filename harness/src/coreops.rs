//! Executor of the core line protocol on the REAL implementation: the same op lines the
//! Lean driver receives (`scheme`, `ctx`, `parse`, `exec`, `value`, `json`, `hash`, `uses`,
//! `useslist`) are applied to wirefilter objects. Streams generate lines; this module runs
//! them, so every recorded case can be replayed from its lines alone.
use crate::codec::{parse_ty, parse_val, ty_str, unhex, val_str};
use crate::core::{self, CtxSpec, Fld, SchemeSpec};
use crate::out::hex;
use wirefilter::{ExecutionContext, Scheme};

pub struct Core {
    pub spec: SchemeSpec,
    pub scheme: Scheme,
    pub ctxspec: CtxSpec,
    ctx: Option<ExecutionContext<'static>>,
}

fn text_of(h: &str) -> Option<String> {
    String::from_utf8(unhex(h)?).ok()
}

fn parse_scheme_line(w: &[&str]) -> Option<SchemeSpec> {
    // scheme <nilne> <depth> <star|-> <fields|.> <funcs|.> <lists|.>
    if w.len() != 7 {
        return None;
    }
    let items = |s: &str| -> Vec<String> {
        if s == "." { vec![] } else { s.split(',').map(|x| x.to_string()).collect() }
    };
    let mut fields = Vec::new();
    for f in items(w[4]) {
        let p: Vec<&str> = f.split(':').collect();
        fields.push(Fld { name: text_of(p.first()?)?, ty: parse_ty(p.get(1)?)?, optional: *p.get(2)? == "1" });
    }
    let mut funcs = Vec::new();
    for f in items(w[5]) {
        let (n, k) = f.split_once(':')?;
        funcs.push((text_of(n)?, k.to_string()));
    }
    let mut lists = Vec::new();
    for l in items(w[6]) {
        let (t, k) = l.split_once(':')?;
        lists.push((parse_ty(t)?, k.chars().next()?));
    }
    Some(SchemeSpec {
        fields,
        funcs,
        lists,
        nil_ne: w[1].starts_with('1'),
        route: match &w[1][1.min(w[1].len())..] {
            "" => 0,
            "a" => 1,
            "b" => 2,
            "c" => 3,
            "d" => 4,
            "e" => 5,
            "f" => 6,
            "g" => 7,
            _ => return None,
        },
        max_depth: w[2].parse().ok()?,
        star_limit: if w[3] == "-" { None } else { Some(w[3].parse().ok()?) },
    })
}

fn parse_ctx_line(w: &[&str], nfields: usize) -> Option<CtxSpec> {
    if w.len() != 3 {
        return None;
    }
    let mut values = vec![None; nfields];
    if w[1] != "." {
        for e in w[1].split('|') {
            let (i, v) = e.split_once('~')?;
            let i: usize = i.parse().ok()?;
            *values.get_mut(i)? = Some(parse_val(v)?);
        }
    }
    let mut sets = Vec::new();
    if w[2] != "." {
        for e in w[2].split('|') {
            let p: Vec<&str> = e.splitn(3, '~').collect();
            let li: usize = p.first()?.parse().ok()?;
            let name = text_of(p.get(1)?)?;
            let vs = p.get(2)?;
            let members = if *vs == "." {
                vec![]
            } else {
                vs.split('^').map(parse_val).collect::<Option<Vec<_>>>()?
            };
            sets.push((li, name, members));
        }
    }
    Some(CtxSpec { values, sets })
}

impl Core {
    pub fn new() -> Self {
        let spec = SchemeSpec { fields: vec![], funcs: vec![], lists: vec![], nil_ne: true, route: 0, max_depth: 128, star_limit: None };
        let scheme = spec.build();
        Core { spec, scheme, ctxspec: CtxSpec::default(), ctx: None }
    }

    fn ctx(&mut self) -> &ExecutionContext<'static> {
        if self.ctx.is_none() {
            // SAFETY-free trick: the context borrows nothing from `self.scheme` (it clones the Arc)
            let c = self.ctxspec.build(&self.spec, &self.scheme);
            self.ctx = Some(c);
        }
        self.ctx.as_ref().unwrap()
    }

    /// apply one op line; `None` = not a core op / malformed. A panic anywhere below (building
    /// the context, looking up a list, ...) is an answer, not the end of the run.
    pub fn apply(&mut self, line: &str) -> Option<String> {
        match std::panic::catch_unwind(std::panic::AssertUnwindSafe(|| self.apply_inner(line))) {
            Ok(r) => r,
            Err(_) => {
                self.ctx = None;
                Some("panic".into())
            }
        }
    }

    fn apply_inner(&mut self, line: &str) -> Option<String> {
        let w: Vec<&str> = line.split(' ').filter(|x| !x.is_empty()).collect();
        match *w.first()? {
            "scheme" => {
                let spec = parse_scheme_line(&w)?;
                self.scheme = match core::no_panic(|| spec.build()) {
                    Some(s) => s,
                    None => return Some("panic".into()),
                };
                self.ctxspec = CtxSpec { values: vec![None; spec.fields.len()], sets: vec![] };
                self.spec = spec;
                self.ctx = None;
                Some("ok".into())
            }
            "ctx" => {
                self.ctxspec = parse_ctx_line(&w, self.spec.fields.len())?;
                self.ctx = None;
                Some("ok".into())
            }
            "ctxmut" => {
                // operations on the LIVE context (the `ctx` line builds a fresh one):
                //   ctxmut clear              ExecutionContext::clear()
                //   ctxmut set <vals> <sets>  set these values / add these members, keep the rest
                self.ctx();
                let (spec, scheme) = (&self.spec, &self.scheme);
                match *w.get(1)? {
                    "clear" if w.len() == 2 => {
                        let live = self.ctx.as_mut().unwrap();
                        if core::no_panic(std::panic::AssertUnwindSafe(|| live.clear())).is_none() {
                            self.ctx = None;
                            return Some("panic".into());
                        }
                        self.ctxspec = CtxSpec { values: vec![None; spec.fields.len()], sets: vec![] };
                        Some("ok".into())
                    }
                    "set" => {
                        let add = parse_ctx_line(&w[1..], spec.fields.len())?;
                        let live = self.ctx.as_mut().unwrap();
                        let r = core::no_panic(std::panic::AssertUnwindSafe(|| {
                            for (i, v) in add.values.iter().enumerate() {
                                if let Some(v) = v {
                                    live.set_field_value(scheme.get_field(&spec.fields[i].name).unwrap(), v.clone())
                                        .expect("well-typed value");
                                }
                            }
                            for (li, name, members) in &add.sets {
                                let list = scheme.get_list(&spec.lists[*li].0).unwrap();
                                let m = live.get_list_matcher_mut(list);
                                if let Some(sm) = m.as_any_mut().downcast_mut::<crate::funcs::SetsMatcher>() {
                                    sm.sets.entry(name.clone()).or_default().extend(members.iter().map(crate::codec::val_str));
                                }
                            }
                        }));
                        if r.is_none() {
                            self.ctx = None;
                            return Some("panic".into());
                        }
                        for (i, v) in add.values.into_iter().enumerate() {
                            if v.is_some() {
                                self.ctxspec.values[i] = v;
                            }
                        }
                        self.ctxspec.sets.extend(add.sets);
                        Some("ok".into())
                    }
                    _ => None,
                }
            }
            "parse" | "parsev" => {
                // both routes to a configured parser must give the same verdict
                let text = text_of(w.get(1)?)?;
                let value = w[0] == "parsev";
                let (spec, scheme) = (&self.spec, &self.scheme);
                Some(
                    core::no_panic(|| {
                        let verdict = |setters: bool| -> &'static str {
                            let p = spec.parser_via(scheme, setters);
                            let ok = if value { p.parse_value(&text).is_ok() } else { p.parse(&text).is_ok() };
                            if ok { "ok" } else { "err" }
                        };
                        let (a, b) = (verdict(true), verdict(false));
                        if a == b { a.to_string() } else { format!("{b} routes-disagree(setters={a},settings={b})") }
                    })
                    .unwrap_or_else(|| "panic".into()),
                )
            }
            "perr" | "perrv" => {
                // accept/reject plus, for ASCII sources, the error kind and location
                let text = text_of(w.get(1)?)?;
                let value = w[0] == "perrv";
                let (spec, scheme) = (&self.spec, &self.scheme);
                Some(
                    core::no_panic(|| {
                        let parser = spec.parser(scheme);
                        let dbg = if value {
                            match parser.parse_value(&text) {
                                Ok(_) => return "ok".to_string(),
                                Err(e) => format!("{e:?}"),
                            }
                        } else {
                            match parser.parse(&text) {
                                Ok(_) => return "ok".to_string(),
                                Err(e) => format!("{e:?}"),
                            }
                        };
                        if !text.is_ascii() {
                            return "err nonascii".to_string();
                        }
                        let kind = dbg.find("kind: ").map(|p| {
                            let t = &dbg[p + 6..];
                            let end = t.find(|c: char| !c.is_ascii_alphanumeric()).unwrap_or(t.len());
                            let k = &t[..end];
                            if k == "EOF" { "eof".to_string() } else { format!("{}{}", k[..1].to_lowercase(), &k[1..]) }
                        });
                        let num = |key: &str| -> Option<usize> {
                            let p = dbg.rfind(key)? + key.len();
                            let t = &dbg[p..];
                            let end = t.find(|c: char| !c.is_ascii_digit()).unwrap_or(t.len());
                            t[..end].parse().ok()
                        };
                        match (kind, num("line_number: "), num("span_start: "), num("span_len: ")) {
                            (Some(k), Some(l), Some(s), Some(n)) => {
                                if ["parseNetwork", "parseRegex", "parseWildcard", "incompatibleRangeBounds"].contains(&k.as_str()) {
                                    format!("err {k} * * *")
                                } else {
                                    format!("err {k} {l} {s} {n}")
                                }
                            }
                            _ => "err unparsed-debug".to_string(),
                        }
                    })
                    .unwrap_or_else(|| "panic".into()),
                )
            }
            "exec" => {
                let text = text_of(w.get(1)?)?;
                self.ctx();
                let (spec, scheme, ctx) = (&self.spec, &self.scheme, self.ctx.as_ref().unwrap());
                Some(
                    core::no_panic(|| {
                        let ast = match spec.parser(scheme).parse(&text) {
                            Ok(a) => a,
                            Err(_) => return "err".to_string(),
                        };
                        let f = ast.compile();
                        match f.execute(ctx) {
                            Ok(b) => b.to_string(),
                            Err(_) => "exec-err".to_string(),
                        }
                    })
                    .unwrap_or_else(|| "panic".into()),
                )
            }
            "execrt" => {
                // execute on a context that went through a JSON round trip (same scheme)
                let text = text_of(w.get(1)?)?;
                self.ctx();
                let (spec, scheme, ctx) = (&self.spec, &self.scheme, self.ctx.as_ref().unwrap());
                Some(
                    core::no_panic(|| {
                        use serde::de::DeserializeSeed;
                        let ast = match spec.parser(scheme).parse(&text) {
                            Ok(a) => a,
                            Err(_) => return "err".to_string(),
                        };
                        let json = match serde_json::to_string(ctx) {
                            Ok(j) => j,
                            Err(_) => return "ser-err".to_string(),
                        };
                        let mut ctx2 = ExecutionContext::<()>::new(scheme);
                        let mut de = serde_json::Deserializer::from_str(&json);
                        if ctx2.deserialize(&mut de).is_err() {
                            return "de-err".to_string();
                        }
                        let f = ast.compile();
                        match f.execute(&ctx2) {
                            Ok(b) => b.to_string(),
                            Err(_) => "exec-err".to_string(),
                        }
                    })
                    .unwrap_or_else(|| "panic".into()),
                )
            }
            "value" => {
                let text = text_of(w.get(1)?)?;
                self.ctx();
                let (spec, scheme, ctx) = (&self.spec, &self.scheme, self.ctx.as_ref().unwrap());
                Some(
                    core::no_panic(|| {
                        let ast = match spec.parser(scheme).parse_value(&text) {
                            Ok(a) => a,
                            Err(_) => return "err".to_string(),
                        };
                        use wirefilter::GetType;
                        let static_ty = ast.get_type();
                        let f = ast.compile();
                        match f.execute(ctx) {
                            // the property: a value of the static type, or an absence tagged with it
                            Ok(Ok(v)) if v.get_type() != static_ty => {
                                format!("ok {} !static-type={}", val_str(&v), ty_str(&static_ty))
                            }
                            Ok(Err(t)) if t != static_ty => {
                                format!("absent {} !static-type={}", ty_str(&t), ty_str(&static_ty))
                            }
                            Ok(Ok(v)) => format!("ok {}", val_str(&v)),
                            Ok(Err(t)) => format!("absent {}", ty_str(&t)),
                            Err(_) => "exec-err".to_string(),
                        }
                    })
                    .unwrap_or_else(|| "panic".into()),
                )
            }
            "json" => {
                let text = text_of(w.get(1)?)?;
                let (spec, scheme) = (&self.spec, &self.scheme);
                Some(
                    core::no_panic(|| match spec.parser(scheme).parse(&text) {
                        Ok(ast) => format!("ok {}", hex(serde_json::to_string(&ast).unwrap().as_bytes())),
                        Err(_) => "err".to_string(),
                    })
                    .unwrap_or_else(|| "panic".into()),
                )
            }
            "hash" => {
                let text = text_of(w.get(1)?)?;
                let (spec, scheme) = (&self.spec, &self.scheme);
                Some(
                    core::no_panic(|| match spec.parser(scheme).parse(&text) {
                        Ok(ast) => {
                            // FNV-1a 64 over the JSON text is what wirefilter_get_filter_hash computes;
                            // the C-API path itself is compared in the `capi` stream.
                            let json = serde_json::to_string(&ast).unwrap();
                            let mut h: u64 = 0xcbf29ce484222325;
                            for b in json.as_bytes() {
                                h ^= *b as u64;
                                h = h.wrapping_mul(0x100000001b3);
                            }
                            format!("ok {h}")
                        }
                        Err(_) => "err".to_string(),
                    })
                    .unwrap_or_else(|| "panic".into()),
                )
            }
            "uses" | "useslist" => {
                let text = text_of(w.get(1)?)?;
                let name = text_of(w.get(2)?)?;
                let list = w[0] == "useslist";
                let (spec, scheme) = (&self.spec, &self.scheme);
                Some(
                    core::no_panic(|| match spec.parser(scheme).parse(&text) {
                        Ok(ast) => {
                            let r = if list { ast.uses_list(&name) } else { ast.uses(&name) };
                            match r {
                                Ok(b) => b.to_string(),
                                Err(_) => "unknown".to_string(),
                            }
                        }
                        Err(_) => "err".to_string(),
                    })
                    .unwrap_or_else(|| "panic".into()),
                )
            }
            _ => None,
        }
    }
}
